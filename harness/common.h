/* Shared helpers of the conformance harnesses (no third-party code). */
#ifndef VERIF_COMMON_H
#define VERIF_COMMON_H

#define _GNU_SOURCE
#include <stdio.h>
#include <stdlib.h>
#include <string.h>
#include <stdint.h>
#include <stdbool.h>
#include <stdarg.h>
#include <signal.h>
#include <unistd.h>
#include <errno.h>
#include <sys/stat.h>

#include "binson_parser.h"
#include "binson_writer.h"

/* ---- allocator interposition counters (C17 dynamic complement) ---------- */
extern volatile long verif_alloc_calls;     /* bumped by the wrappers in alloc_count.c */
extern volatile int  verif_alloc_watch;     /* count only while set */

/* ---- hex ---------------------------------------------------------------- */
static inline int hexval(int c)
{
    if (c >= '0' && c <= '9') return c - '0';
    if (c >= 'a' && c <= 'f') return c - 'a' + 10;
    if (c >= 'A' && c <= 'F') return c - 'A' + 10;
    return -1;
}

/* decodes hex text [s, s+n) into a malloc block of EXACTLY n/2 bytes */
static inline uint8_t *unhex_exact(const char *s, size_t n, size_t *out_len)
{
    size_t len = n / 2;
    uint8_t *b = (uint8_t *) malloc(len);   /* len==0: unique zero-size block */
    for (size_t i = 0; i < len; i++) {
        b[i] = (uint8_t) ((hexval(s[2*i]) << 4) | hexval(s[2*i+1]));
    }
    *out_len = len;
    return b;
}

static inline void hexout(FILE *f, const uint8_t *b, size_t n)
{
    for (size_t i = 0; i < n; i++) fprintf(f, "%02x", b[i]);
}

/* ---- watchdog (C16): a hang becomes an observation ----------------------- */
extern volatile sig_atomic_t verif_in_call;
void verif_watchdog_install(void (*on_timeout)(void));
static inline void watchdog_arm(unsigned seconds)   { verif_in_call = 1; alarm(seconds); }
static inline void watchdog_disarm(void)            { alarm(0); verif_in_call = 0; }

/* recorders: a call that does not return within the limit ends the run with exit 44 (C16) */
static inline void rec_alarm_handler(int sig) { (void) sig; static const char m[] = "WATCHDOG: a library call did not return\n"; ssize_t w = write(2, m, sizeof m - 1); (void) w; _exit(44); }
static inline void rec_watchdog(unsigned seconds) { signal(SIGALRM, rec_alarm_handler); alarm(seconds); }

/* ---- tiny PRNG (splitmix64), seeded from VERIF_SEED ----------------------- */
typedef struct { uint64_t s; } rng_t;
static inline uint64_t rng_next(rng_t *r)
{
    uint64_t z = (r->s += 0x9E3779B97F4A7C15ULL);
    z = (z ^ (z >> 30)) * 0xBF58476D1CE4E5B9ULL;
    z = (z ^ (z >> 27)) * 0x94D049BB133111EBULL;
    return z ^ (z >> 31);
}
static inline uint32_t rng_below(rng_t *r, uint32_t n) { return n ? (uint32_t) (rng_next(r) % n) : 0; }
static inline bool rng_chance(rng_t *r, uint32_t num, uint32_t den) { return rng_below(r, den) < num; }

#endif
