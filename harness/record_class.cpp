/* record_class: drives the REAL C++ Binson class with seeded random documents (valid value trees encoded by
 * gen.h's own encoder, nesting families around the wrapper's depth limit, mutations, truncations) and writes
 * one ndjson line per document (code -> spec).  spec/TraceClass.tla validates every line against Layer A:
 * each deserialize overload returns normally exactly when Parse(bytes,"O",10) accepts, the object then equals
 * the decoded value tree and serialize() gives the bytes back.
 *
 *  {"buf":[...],"out":[o0..o4],"dump":"<dump of overload 1|x>","same":0|1,"ser":[...]|[], "back":0|1}
 *  out: 0 returned, 1 threw std::exception, 2 threw something else
 *  same: every overload that returned produced the same dump and the same serialize() bytes
 *  back: serialize(); deserialize(); dump gives the same dump again (only when overload 1 returned)
 */
extern "C" {
#include "common.h"
}
volatile sig_atomic_t verif_in_call = 0;
void verif_watchdog_install(void (*f)(void)) { (void) f; }
extern "C" {
#include "gen.h"
}
#include <binson.hpp>
#include <string>
#include <vector>
#include <stdexcept>

static void hexs(std::string &o, const uint8_t *p, size_t n)
{
    static const char d[] = "0123456789abcdef";
    for (size_t i = 0; i < n; i++) { o.push_back(d[p[i] >> 4]); o.push_back(d[p[i] & 15]); }
}
static void dump_value(std::string &o, const BinsonValue &v);
static void dump_obj(std::string &o, const Binson &b)
{
    o += "o{";
    for (auto it = b.begin(); it != b.end(); ++it) {
        hexs(o, reinterpret_cast<const uint8_t *>(it->first.data()), it->first.size());
        o += ":";
        dump_value(o, it->second);
    }
    o += "}";
}
static void dump_value(std::string &o, const BinsonValue &v)
{
    switch (v.myType()) {
    case BinsonValue::Types::boolType: o += v.getBool() ? "b1" : "b0"; break;
    case BinsonValue::Types::intType: { uint8_t b[8]; uint64_t u = (uint64_t) v.getInt(); for (int i = 0; i < 8; i++) { b[i] = u & 0xFF; u >>= 8; } o += "i"; hexs(o, b, 8); break; }
    case BinsonValue::Types::doubleType: { double d = v.getDouble(); uint8_t b[8]; memcpy(b, &d, 8); o += "d"; hexs(o, b, 8); break; }
    case BinsonValue::Types::stringType: o += "s"; hexs(o, reinterpret_cast<const uint8_t *>(v.getString().data()), v.getString().size()); o += ";"; break;
    case BinsonValue::Types::binaryType: o += "y"; hexs(o, v.getBin().data(), v.getBin().size()); o += ";"; break;
    case BinsonValue::Types::objectType: dump_obj(o, v.getObject()); break;
    case BinsonValue::Types::arrayType: o += "a["; for (auto &e : v.getArray()) dump_value(o, e); o += "]"; break;
    default: o += "?none?"; break;
    }
}

int main(int argc, char **argv)
{
    uint64_t seed = 1; int n = 200; const char *out = NULL;
    for (int i = 1; i < argc; i++) {
        if (!strcmp(argv[i], "--seed")) seed = strtoull(argv[++i], NULL, 10);
        else if (!strcmp(argv[i], "--docs")) n = atoi(argv[++i]);
        else if (!strcmp(argv[i], "--out")) out = argv[++i];
    }
    FILE *f = out ? fopen(out, "w") : stdout;
    rng_t r = {seed * 131 + 9};
    gen_t g; memset(&g, 0, sizeof g); g.r = &r; g.big = false;
    bb_t x = {NULL, 0, 0};
    rec_watchdog(300);
    for (int k = 0; k < n; k++) {
        g.budget = 2 + (int) rng_below(&r, 14);
        uint32_t kind = rng_below(&r, 12);
        if (kind == 0) gen_deep(&x, 'O', 8 + (int) rng_below(&r, 5), rng_chance(&r, 1, 2));      /* around the depth limit of 10 */
        else gen_doc(&g, &x, 'O', 2 + (int) rng_below(&r, 3));
        if (kind == 1 || kind == 2) mutate(&r, &x);
        else if (kind == 3 && x.n > 1) x.n -= 1 + rng_below(&r, (uint32_t) (x.n > 4 ? 4 : x.n - 1));      /* truncated */
        else if (kind == 4) bb_byte(&x, (uint8_t) rng_below(&r, 256));                                   /* trailing byte */
        if (x.n > 1500) { k--; continue; }                                                                 /* keeps the trace small */
        uint8_t *bytes = (uint8_t *) malloc(x.n ? x.n : 1); memcpy(bytes, x.b, x.n); size_t len = x.n;    /* exact-size block */
        int outc[5]; std::string dumps[5]; std::vector<uint8_t> sers[5];
        for (int o = 0; o < 5; o++) {
            outc[o] = 0;
            Binson b; b.put("stale", BinsonValue(1));
            try {
                if (o == 0) { std::vector<uint8_t> v(bytes, bytes + len); b.deserialize(v); }
                else if (o == 1) b.deserialize(bytes, len);
                else {
                    BINSON_PARSER_DEF(p);
                    if (!binson_parser_init(&p, bytes, len)) throw std::runtime_error("init");
                    if (o == 3) {
                        binson_parser_go_into_object(&p);
                        for (int j = 0; j < 8 && binson_parser_next(&p); j++) {
                            binson_type t = binson_parser_get_type(&p);
                            if (t == BINSON_TYPE_OBJECT) binson_parser_go_into_object(&p);
                            else if (t == BINSON_TYPE_ARRAY) binson_parser_go_into_array(&p);
                        }
                    } else if (o == 4) { binson_parser_go_into_object(&p); binson_parser_next(&p); binson_parser_leave_array(&p); }
                    b.deserialize(&p);
                }
                dump_obj(dumps[o], b);
                sers[o] = b.serialize();
            } catch (const std::exception &) { outc[o] = 1; }
            catch (...) { outc[o] = 2; }
        }
        bool same = true; int first = -1;
        for (int o = 0; o < 5; o++) if (outc[o] == 0) { if (first < 0) first = o; else if (dumps[o] != dumps[first] || sers[o] != sers[first]) same = false; }
        bool back = true;
        if (outc[1] == 0) {
            try { Binson y; y.deserialize(sers[1]); std::string d2; dump_obj(d2, y); back = d2 == dumps[1]; } catch (...) { back = false; }
        }
        fprintf(f, "{\"buf\":[");
        for (size_t i = 0; i < len; i++) fprintf(f, i ? ",%u" : "%u", bytes[i]);
        fprintf(f, "],\"out\":[%d,%d,%d,%d,%d],\"dump\":\"%s\",\"same\":%d,\"back\":%d,\"ser\":[", outc[0], outc[1], outc[2], outc[3], outc[4],
                first >= 0 ? dumps[first].c_str() : "x", same ? 1 : 0, back ? 1 : 0);
        if (first >= 0) for (size_t i = 0; i < sers[first].size(); i++) fprintf(f, i ? ",%u" : "%u", sers[first][i]);
        fprintf(f, "]}\n");
        free(bytes);
    }
    if (out) fclose(f);
    fprintf(stderr, "record_class: %d documents\n", n);
    return 0;
}
