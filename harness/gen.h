/* Seeded generator of Binson documents shared by the recorders: random value trees encoded by
 * this file's OWN encoder (not the library's writer), nesting families and mutations. */
#ifndef VERIF_GEN_H
#define VERIF_GEN_H
#include "common.h"

/* ---- growable byte buffer ---------------------------------------------------- */
typedef struct { uint8_t *b; size_t n, cap; } bb_t;
static void bb_put(bb_t *x, const void *p, size_t n)
{
    if (x->n + n > x->cap) { x->cap = (x->n + n) * 2 + 64; x->b = (uint8_t *) realloc(x->b, x->cap); }
    memcpy(x->b + x->n, p, n); x->n += n;
}
static void bb_byte(bb_t *x, uint8_t v) { bb_put(x, &v, 1); }

/* independent encoder */
static void enc_int(bb_t *x, uint8_t base, int64_t v)
{
    int w = (v >= -128 && v <= 127) ? 1 : (v >= -32768 && v <= 32767) ? 2 : (v >= -2147483648LL && v <= 2147483647LL) ? 4 : 8;
    bb_byte(x, (uint8_t) (base + (w == 1 ? 0 : w == 2 ? 1 : w == 4 ? 2 : 3)));
    uint64_t u = (uint64_t) v; for (int i = 0; i < w; i++) { bb_byte(x, (uint8_t) (u & 0xFF)); u >>= 8; }
}
static void enc_blob(bb_t *x, uint8_t base, const uint8_t *p, size_t n) { enc_int(x, base, (int64_t) n); bb_put(x, p, n); }

static const int64_t INT_EDGES[] = {0, 1, -1, 127, 128, -128, -129, 255, 256, 32767, 32768, -32768, -32769, 65535, 65536,
    2147483647LL, 2147483648LL, -2147483648LL, -2147483649LL, 4294967295LL, 4294967296LL, INT64_MAX, INT64_MIN, INT64_MAX - 1, INT64_MIN + 1};
static const uint64_t DBL_EDGES[] = {0, 0x8000000000000000ULL, 0x3FF0000000000000ULL, 0x7FF0000000000000ULL, 0xFFF0000000000000ULL,
    0x7FF8000000000001ULL, 0xFFF8000000000000ULL, 0x7FF0000000000001ULL, 1, 0x000FFFFFFFFFFFFFULL, 0x7FEFFFFFFFFFFFFFULL, 0x0102030405060708ULL};
static const size_t LEN_EDGES[] = {0, 1, 2, 3, 126, 127, 128, 129, 255, 256, 300};
static const size_t LEN_BIG[] = {32766, 32767, 32768, 32769, 65535, 65536, 40000};

static int64_t rnd_int(rng_t *r)
{
    switch (rng_below(r, 4)) {
    case 0: return (int64_t) ((uint64_t) INT_EDGES[rng_below(r, sizeof INT_EDGES / sizeof INT_EDGES[0])] + (uint64_t) rng_below(r, 7) - 3);
    case 1: return (int64_t) rng_next(r);
    case 2: { uint64_t v = rng_next(r) >> rng_below(r, 64); return (int64_t) (rng_chance(r, 1, 2) ? v : (~v + 1)); }
    default: return (int64_t) rng_below(r, 300) - 150;
    }
}
static void rnd_bytes(rng_t *r, uint8_t *p, size_t n, bool ascii)
{
    for (size_t i = 0; i < n; i++) {
        uint32_t k = rng_below(r, 10);
        p[i] = ascii ? (uint8_t) ('a' + rng_below(r, 26)) : k == 0 ? 0 : k == 1 ? (uint8_t) (0x80 + rng_below(r, 128)) : (uint8_t) rng_below(r, 256);
    }
}

#define NAMEMAX 33000
typedef struct { rng_t *r; int budget; bool big; uint8_t *names[64]; size_t nlen[64]; int nnames; } gen_t;

static void gen_value(gen_t *g, bb_t *x, int depth, int maxdepth);
static void gen_object_body(gen_t *g, bb_t *x, int depth, int maxdepth)
{
    /* ascending unique names: generate a sorted set */
    int nf = (int) rng_below(g->r, depth == 0 ? 8 : 5);
    static uint8_t names[8][NAMEMAX]; size_t lens[8]; int n = 0;
    for (int i = 0; i < nf && g->budget > 0; i++) {
        size_t l = rng_below(g->r, 4); static uint8_t nm[NAMEMAX];
        /* now and then a long name: length prefix of 2 bytes (>= 128) or, with --big, 4 bytes (>= 32768) */
        if (rng_chance(g->r, 1, 10)) l = 125 + rng_below(g->r, 8);
        else if (rng_chance(g->r, 1, 40)) l = 300 + rng_below(g->r, 100);
        else if (g->big && rng_chance(g->r, 1, 60)) l = 32766 + rng_below(g->r, 4);
        rnd_bytes(g->r, nm, l, rng_chance(g->r, 1, 2));
        if (l > 8 && rng_chance(g->r, 1, 2)) memset(nm, 'm', l - 1);      /* long names that share long prefixes */
        /* insert sorted, skip duplicates (unsigned bytewise, shorter first) */
        int pos = 0; bool dup = false;
        for (; pos < n; pos++) {
            size_t m = l < lens[pos] ? l : lens[pos]; int c = memcmp(nm, names[pos], m);
            if (c == 0) c = (l > lens[pos]) - (l < lens[pos]);
            if (c == 0) { dup = true; break; }
            if (c < 0) break;
        }
        if (dup) continue;
        for (int k = n; k > pos; k--) { memcpy(names[k], names[k-1], lens[k-1]); lens[k] = lens[k-1]; }
        memcpy(names[pos], nm, l); lens[pos] = l; n++;
    }
    for (int i = 0; i < n; i++) {
        enc_blob(x, 0x14, names[i], lens[i]);
        if (g->nnames < 64) { g->names[g->nnames] = (uint8_t *) realloc(g->names[g->nnames], lens[i] + 2); memcpy(g->names[g->nnames], names[i], lens[i]); g->nlen[g->nnames++] = lens[i]; }
        gen_value(g, x, depth, maxdepth);
    }
}
static void gen_value(gen_t *g, bb_t *x, int depth, int maxdepth)
{
    g->budget--;
    uint32_t k = rng_below(g->r, depth < maxdepth && g->budget > 0 ? 10 : 7);
    switch (k) {
    case 0: bb_byte(x, rng_chance(g->r, 1, 2) ? 0x44 : 0x45); break;
    case 1: case 2: enc_int(x, 0x10, rnd_int(g->r)); break;
    case 3: { uint64_t d = rng_chance(g->r, 1, 2) ? DBL_EDGES[rng_below(g->r, sizeof DBL_EDGES / sizeof DBL_EDGES[0])] : rng_next(g->r);
              bb_byte(x, 0x46); for (int i = 0; i < 8; i++) { bb_byte(x, (uint8_t) (d & 0xFF)); d >>= 8; } break; }
    case 4: case 5: case 6: {
        size_t l = LEN_EDGES[rng_below(g->r, sizeof LEN_EDGES / sizeof LEN_EDGES[0])];
        if (g->big && rng_chance(g->r, 1, 6)) l = LEN_BIG[rng_below(g->r, sizeof LEN_BIG / sizeof LEN_BIG[0])];
        if (rng_chance(g->r, 1, 2)) l = rng_below(g->r, 6);
        uint8_t *p = (uint8_t *) malloc(l + 1); rnd_bytes(g->r, p, l, k == 4);
        enc_blob(x, k == 6 ? 0x18 : 0x14, p, l); free(p); break; }
    case 7: case 8: bb_byte(x, 0x40); gen_object_body(g, x, depth + 1, maxdepth); bb_byte(x, 0x41); break;
    default: { bb_byte(x, 0x42); int ne = (int) rng_below(g->r, 5); for (int i = 0; i < ne && g->budget > 0; i++) gen_value(g, x, depth + 1, maxdepth); bb_byte(x, 0x43); break; }
    }
}
static void gen_doc(gen_t *g, bb_t *x, char root, int maxdepth)
{
    x->n = 0; g->nnames = 0;
    if (root == 'O') { bb_byte(x, 0x40); gen_object_body(g, x, 1, maxdepth); bb_byte(x, 0x41); }
    else { bb_byte(x, 0x42); int ne = (int) rng_below(g->r, 7); for (int i = 0; i < ne && g->budget > 0; i++) gen_value(g, x, 1, maxdepth); bb_byte(x, 0x43); }
}
/* deep nesting families */
static void gen_deep(bb_t *x, char root, int depth, bool arrays)
{
    x->n = 0;
    if (arrays) { for (int i = 0; i < depth; i++) bb_byte(x, 0x42); for (int i = 0; i < depth; i++) bb_byte(x, 0x43); if (root == 'O') { /* wrap */ bb_t y = {0}; bb_byte(&y, 0x40); uint8_t a = 'a'; enc_blob(&y, 0x14, &a, 1); bb_put(&y, x->b, x->n); bb_byte(&y, 0x41); x->n = 0; bb_put(x, y.b, y.n); free(y.b); } }
    else { for (int i = 0; i < depth; i++) { bb_byte(x, 0x40); if (i + 1 < depth) { uint8_t a = 'a'; enc_blob(x, 0x14, &a, 1); } } for (int i = 0; i < depth; i++) bb_byte(x, 0x41);
           if (root == 'A') { bb_t y = {0}; bb_byte(&y, 0x42); bb_put(&y, x->b, x->n); bb_byte(&y, 0x43); x->n = 0; bb_put(x, y.b, y.n); free(y.b); } }
}
/* mixed deep nesting: nobj nested objects (member "a"), the innermost holding "a": narr nested arrays around [1,"x",2]
 * and a second member "z": 7 - array chains that start below several object levels, with elements at the bottom */
static void gen_deep_mixed(bb_t *x, char root, int nobj, int narr)
{
    x->n = 0; uint8_t a = 'a', z = 'z';
    if (root == 'A') bb_byte(x, 0x42);
    for (int i = 0; i < nobj; i++) { bb_byte(x, 0x40); enc_blob(x, 0x14, &a, 1); }
    for (int i = 0; i < narr; i++) bb_byte(x, 0x42);
    enc_int(x, 0x10, 1); { uint8_t sx = 'x'; enc_blob(x, 0x14, &sx, 1); } enc_int(x, 0x10, 2);
    for (int i = 0; i < narr; i++) bb_byte(x, 0x43);
    enc_blob(x, 0x14, &z, 1); enc_int(x, 0x10, 7);
    for (int i = 0; i < nobj; i++) bb_byte(x, 0x41);
    if (root == 'A') bb_byte(x, 0x43);
}
static void mutate(rng_t *r, bb_t *x)
{
    if (x->n == 0) return;
    int k = 1 + (int) rng_below(r, 3);
    for (int i = 0; i < k; i++) {
        size_t pos = rng_below(r, (uint32_t) x->n);
        switch (rng_below(r, 6)) {
        case 0: x->b[pos] ^= (uint8_t) (1u << rng_below(r, 8)); break;
        case 1: x->b[pos] = (uint8_t) rng_below(r, 256); break;
        case 2: if (x->n > 2) { memmove(x->b + pos, x->b + pos + 1, x->n - pos - 1); x->n--; } break;
        case 3: { uint8_t v = (uint8_t) (rng_chance(r, 1, 2) ? 0x40 + rng_below(r, 7) : rng_below(r, 256)); bb_byte(x, 0); memmove(x->b + pos + 1, x->b + pos, x->n - pos - 1); x->b[pos] = v; break; }
        case 4: if (x->n > 3) { x->n = 2 + rng_below(r, (uint32_t) x->n - 2); x->b[x->n - 1] = rng_chance(r, 1, 2) ? 0x41 : 0x43; } break;
        default: { size_t q = rng_below(r, (uint32_t) x->n); uint8_t t = x->b[pos]; x->b[pos] = x->b[q]; x->b[q] = t; break; }
        }
    }
}

#endif
