/* placeholder for allocator interposition (C17 dynamic complement) */
volatile long verif_alloc_calls = 0;
volatile int verif_alloc_watch = 0;
