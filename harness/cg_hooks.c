/* cg_hooks: run-time observation for C17 (code -> spec).  Linked ONLY into the instrumented build of the
 * recorders (library objects compiled with -finstrument-functions, harness code excluded): every entry into a
 * library function pushes onto a shadow call stack; every distinct call stack is kept together with the
 * largest number of stack bytes measured for it (distance from the entry of the outermost library call), and
 * allocator calls made while a library call is active are counted (--wrap).  At exit the table is written to
 * $VERIF_CG_OUT as text; lib/checks.py turns addresses into names (nm) and spec/CallGraphTrace.tla checks every
 * observed stack against the call-graph model extracted from the compiler's output. */
#define _GNU_SOURCE
#include <stdint.h>
#include <stdio.h>
#include <stdlib.h>
#include <string.h>
#define NOI __attribute__((no_instrument_function))
#define MAXD 48
#define TAB 8192
typedef struct { int n; void *f[MAXD]; long bytes; long hits; } ent_t;
static ent_t tab[TAB];
static void *cur[MAXD + 1];
static int depth, deepest, overflow;
static char *base;
static long allocs_inside, calls_total;

NOI void __cyg_profile_func_enter(void *fn, void *site)
{
    char probe; (void) site;
    if (depth == 0) base = &probe;
    if (depth < MAXD) cur[depth] = fn;
    depth++; calls_total++;
    if (depth > deepest) deepest = depth;
    if (depth > MAXD) { overflow = 1; return; }
    long used = (long) (base - &probe);
    uint64_t h = 1469598103934665603ULL;
    for (int i = 0; i < depth; i++) { h ^= (uint64_t) (uintptr_t) cur[i]; h *= 1099511628211ULL; }
    for (unsigned k = 0; k < TAB; k++) {
        ent_t *e = &tab[(h + k) % TAB];
        if (e->n == 0) { e->n = depth; memcpy(e->f, cur, (size_t) depth * sizeof(void *)); e->bytes = used; e->hits = 1; return; }
        if (e->n == depth && memcmp(e->f, cur, (size_t) depth * sizeof(void *)) == 0) { if (used > e->bytes) e->bytes = used; e->hits++; return; }
    }
    overflow = 1;
}
NOI void __cyg_profile_func_exit(void *fn, void *site) { (void) fn; (void) site; if (depth > 0) depth--; }

void *__real_malloc(size_t); void *__real_calloc(size_t, size_t); void *__real_realloc(void *, size_t); void __real_free(void *);
NOI void *__wrap_malloc(size_t n) { if (depth > 0) allocs_inside++; return __real_malloc(n); }
NOI void *__wrap_calloc(size_t a, size_t b) { if (depth > 0) allocs_inside++; return __real_calloc(a, b); }
NOI void *__wrap_realloc(void *p, size_t n) { if (depth > 0) allocs_inside++; return __real_realloc(p, n); }
NOI void __wrap_free(void *p) { if (depth > 0) allocs_inside++; __real_free(p); }

NOI __attribute__((destructor)) static void cg_dump(void)
{
    const char *path = getenv("VERIF_CG_OUT");
    if (!path) return;
    FILE *f = fopen(path, "w");
    if (!f) return;
    fprintf(f, "allocs %ld calls %ld deepest %d overflow %d\n", allocs_inside, calls_total, deepest, overflow);
    for (unsigned k = 0; k < TAB; k++) if (tab[k].n) {
        fprintf(f, "stack %ld %ld", tab[k].bytes, tab[k].hits);
        for (int i = 0; i < tab[k].n; i++) fprintf(f, " %lx", (unsigned long) (uintptr_t) tab[k].f[i]);
        fprintf(f, "\n");
    }
    fclose(f);
}
