/* record_parser: drives the REAL parser on inputs TLC cannot enumerate (random trees with
 * payload lengths across 127/128 and 32767/32768, nesting to the limits, mutated documents,
 * large buffers, garbage-filled reused objects) with random walkers, and writes one ndjson
 * event per public call (code -> spec).  spec/TraceParser.tla validates the file.
 *
 *   record_parser --seed N --docs N --out FILE [--mode valid|mutate|hostile|mixed] [--big]
 *
 * Events:
 *  {"e":"I","root":"O","maxd":10,"fill":0,"valid":1,"buf":[..],"ret":1,"err":0}
 *  {"e":"n","a":[],"ty":0,"ret":1,"err":0,"d":1,"t":6,"nm":[off,len],"iv":[8],"dv":[8],"bv":0,
 *   "sv":[off,len],"yv":[off,len],"raw":[off,len],"used":7,"cb":2,"hi":7,"u0":3}
 * Documents are encoded by this file's own encoder (not by the library's writer).
 */
#include "proj.h"

volatile sig_atomic_t verif_in_call = 0;
void verif_watchdog_install(void (*f)(void)) { (void) f; }

#include "gen.h"

/* ---- event output ------------------------------------------------------------ */
static FILE *OUTF;
static long nevents = 0;
typedef struct { long calls; size_t hi; } cbctx_t;
static void counting_cb(binson_parser *p, uint16_t ns, void *ctx) { (void) ns; cbctx_t *c = (cbctx_t *) ctx; c->calls++; if (p->buffer_used > c->hi) c->hi = p->buffer_used; }

static void ev_bytes(const char *k, const uint8_t *b, size_t n)
{
    fprintf(OUTF, ",\"%s\":[", k);
    for (size_t i = 0; i < n; i++) fprintf(OUTF, i ? ",%u" : "%u", b[i]);
    fputc(']', OUTF);
}

typedef struct { char stk[300]; int sp; int on; bool fresh, left; } track_t;

static void emit_call(binson_parser *p, const uint8_t *doc, const char *op, const uint8_t *arg, size_t arglen, int ty, int ret,
                      const bbuf *raw, size_t used0, const cbctx_t *cb, bool in_obj_hit, int w_cnt, int w_err)
{
    obs_t o; memset(&o, 0, sizeof o); project_values(p, doc, &o);
    fprintf(OUTF, "{\"e\":\"%s\"", op);
    ev_bytes("a", arg, arglen);
    fprintf(OUTF, ",\"ty\":%d,\"ret\":%d,\"err\":%d,\"d\":%ld,\"t\":%d", ty, ret, o.err, o.err ? 0 : o.depth, o.type);
    if (in_obj_hit) { project_name(p, doc, &o); if (o.has_name) fprintf(OUTF, ",\"nm\":[%ld,%ld]", o.n_off, o.n_len); else fprintf(OUTF, ",\"nm\":[]"); o.err = (int) p->error_flags; }
    else fprintf(OUTF, ",\"nm\":[]");
    ev_bytes("iv", o.i8, 8); ev_bytes("dv", o.d8, 8);
    fprintf(OUTF, ",\"bv\":%d", o.b);
    if (o.has_str) fprintf(OUTF, ",\"sv\":[%ld,%ld]", o.s_off, o.s_len); else fprintf(OUTF, ",\"sv\":[]");
    if (o.has_bytes) fprintf(OUTF, ",\"yv\":[%ld,%ld]", o.y_off, o.y_len); else fprintf(OUTF, ",\"yv\":[]");
    if (raw && ret) fprintf(OUTF, ",\"raw\":[%ld,%ld]", (long) (raw->bptr - doc), (long) raw->bsize); else fprintf(OUTF, ",\"raw\":[]");
    fprintf(OUTF, ",\"wc\":%d,\"we\":%d", w_cnt, w_err);
    fprintf(OUTF, ",\"used\":%ld,\"u0\":%ld,\"cb\":%ld,\"hi\":%ld,\"err2\":%d}\n", o.err ? -1 : o.used, (long) used0, cb->calls, (long) cb->hi, (int) p->error_flags);
    nevents++;
}

/* one API call chosen by the walker; returns ret */
static int call_op(binson_parser *p, const uint8_t *doc, size_t size, const char *op, const uint8_t *name, size_t nlen, int ty, track_t *t)
{
    cbctx_t cb = {0, p->buffer_used}; size_t used0 = p->buffer_used; int ret = 0; bbuf raw = {0, NULL}; bool has_raw = false;
    int wc = -1, we = -1;
    binson_cb saved = p->cb; void *sctx = p->cb_context;
    bool gated = !strcmp(op, "v") || !strcmp(op, "rs");
    if (!gated) { p->cb = counting_cb; p->cb_context = &cb; }
    bool top_obj = t->sp > 0 && t->stk[t->sp-1] == 'O';
    rec_watchdog(30);
    if      (!strcmp(op, "n"))  ret = binson_parser_next(p);
    else if (!strcmp(op, "ne")) ret = binson_parser_next_ensure(p, (binson_type) ty);
    else if (!strcmp(op, "io")) ret = binson_parser_go_into_object(p);
    else if (!strcmp(op, "ia")) ret = binson_parser_go_into_array(p);
    else if (!strcmp(op, "lo")) ret = binson_parser_leave_object(p);
    else if (!strcmp(op, "la")) ret = binson_parser_leave_array(p);
    else if (!strcmp(op, "f"))  ret = binson_parser_field_with_length(p, (const char *) name, nlen);
    else if (!strcmp(op, "fe")) ret = binson_parser_field_ensure_with_length(p, (const char *) name, nlen, (binson_type) ty);
    else if (!strcmp(op, "raw")) { ret = binson_parser_get_raw(p, &raw); has_raw = true; }
    else if (!strcmp(op, "tw")) { uint8_t *wb = (uint8_t *) malloc(size + 1); binson_writer w; binson_writer_init(&w, wb, size);
                                  ret = binson_parser_to_writer(p, &w); wc = (int) w.buffer_used; we = (int) w.error_flags;
                                  if (ret && w.buffer_used <= size) { /* bytes appended = a span of the document? find it */
                                      raw.bsize = w.buffer_used; raw.bptr = NULL;
                                      size_t start = p->buffer_used >= w.buffer_used ? p->buffer_used - w.buffer_used : 0;
                                      if (memcmp(doc + start, wb, w.buffer_used) == 0) { raw.bptr = doc + start; has_raw = true; } }
                                  free(wb); }
    else if (!strcmp(op, "v"))  ret = binson_parser_verify(p);
    else if (!strcmp(op, "rs")) ret = binson_parser_reset(p);
    else if (!strcmp(op, "gn")) ret = binson_parser_get_name(p) != NULL;
    alarm(0);
    if (!gated && p->cb == counting_cb) { p->cb = saved; p->cb_context = sctx; }
    /* get_name SETS an error when there is no name: ask only when the level really is an object level */
    bool lvl_obj = p->error_flags == BINSON_ERROR_NONE && p->depth <= p->max_depth && (p->state[p->depth > 0 ? p->depth - 1 : 0].flags & 0x3U) != 0;
    bool hit = ret && top_obj && lvl_obj && (!strcmp(op, "n") || !strcmp(op, "ne") || !strcmp(op, "f") || !strcmp(op, "fe"));
    emit_call(p, doc, op, name, nlen, ty, ret, has_raw ? &raw : NULL, used0, &cb, hit, wc, we);
    /* tracker on the real answers */
    if (!strcmp(op, "io") || !strcmp(op, "ia")) { if (ret && t->sp < 299) { t->stk[t->sp++] = op[1] == 'o' ? 'O' : 'A'; t->fresh = false; } t->on = 0; }
    else if (!strcmp(op, "lo") || !strcmp(op, "la")) { if (ret && t->sp > 0) { t->sp--; if (t->sp == 0) t->left = true; } t->on = 0; }
    else if (!strcmp(op, "n") || !strcmp(op, "ne") || !strcmp(op, "f") || !strcmp(op, "fe")) t->on = ret ? (int) binson_parser_get_type(p) : 0;
    else if (!strcmp(op, "raw") || !strcmp(op, "tw")) t->on = 0;
    else if ((!strcmp(op, "v") || !strcmp(op, "rs")) && ret) { t->sp = 0; t->on = 0; t->fresh = true; t->left = false; }
    return ret;
}

static void pick_name(gen_t *g, uint8_t *nm, size_t *nl)
{
    if (g->nnames > 0 && rng_chance(g->r, 3, 4)) {
        int i = (int) rng_below(g->r, (uint32_t) g->nnames); memcpy(nm, g->names[i], g->nlen[i]); *nl = g->nlen[i];
        if (rng_chance(g->r, 1, 5)) nm[(*nl)++] = (uint8_t) rng_below(g->r, 256);       /* extension of a present name */
        else if (rng_chance(g->r, 1, 6) && *nl > 0) (*nl)--;                                       /* prefix */
    } else { *nl = rng_below(g->r, 4); rnd_bytes(g->r, nm, *nl, rng_chance(g->r, 1, 2)); }
}

static void walk(gen_t *g, binson_parser *p, const uint8_t *doc, size_t size, char root, bool hostile, int maxcalls)
{
    track_t t; memset(&t, 0, sizeof t); t.fresh = true;
    if (!hostile && maxcalls == -2) {
        /* the nesting-limit documents: hand the deep container to to_writer / get_raw, then go on */
        static const char *SCRIPT[] = {"n", "tw", "n", "raw", "n"};
        if (!call_op(p, doc, size, root == 'O' ? "io" : "ia", NULL, 0, 0, &t)) return;
        for (int i = 0; i < 5 && t.sp > 0; i++) {
            const char *op = SCRIPT[i];
            bool on_c = t.on == BINSON_TYPE_OBJECT || t.on == BINSON_TYPE_ARRAY;
            if ((op[0] == 't' || op[0] == 'r') && !on_c) continue;
            call_op(p, doc, size, op, NULL, 0, 0, &t);
        }
        while (!t.left && t.sp > 0) { if (!call_op(p, doc, size, t.stk[t.sp-1] == 'O' ? "lo" : "la", NULL, 0, 0, &t)) break; }
        return;
    }
    if (!hostile && maxcalls < 0) {
        /* FULL traversal (C03): enter every container, leave it when next says false */
        long guard = 0;
        if (!call_op(p, doc, size, root == 'O' ? "io" : "ia", NULL, 0, 0, &t)) return;
        while (t.sp > 0 && guard++ < 4000) {
            if (call_op(p, doc, size, "n", NULL, 0, 0, &t)) {
                if (t.on == BINSON_TYPE_OBJECT) { if (!call_op(p, doc, size, "io", NULL, 0, 0, &t)) return; }
                else if (t.on == BINSON_TYPE_ARRAY) { if (!call_op(p, doc, size, "ia", NULL, 0, 0, &t)) return; }
            } else if (!call_op(p, doc, size, t.stk[t.sp-1] == 'O' ? "lo" : "la", NULL, 0, 0, &t)) return;
        }
        return;
    }
    static const char *ALL[] = {"n", "ne", "io", "ia", "lo", "la", "f", "fe", "raw", "tw", "gn", "v", "rs"};
    for (int i = 0; i < maxcalls; i++) {
        const char *op = NULL; static uint8_t nm[NAMEMAX + 8]; size_t nl = 0; int ty = 0;
        if (hostile) {
            op = ALL[rng_below(g->r, 13)];
            /* lookups only inside an object (documented precondition), judged on the real state */
            /* (a hostile go_into_object can "succeed" without entering anything, so the tracker is not enough:
             *  peek at the level flags, bits 0x3 = IN_OBJECT) */
            if ((op[0] == 'f') && !(p->error_flags == BINSON_ERROR_NONE && p->depth <= p->max_depth &&
                                    (p->state[p->depth > 0 ? p->depth - 1 : 0].flags & 0x3U) != 0)) op = "n";
        } else {
            if (t.left) break;
            if (t.fresh) op = root == 'O' ? "io" : "ia";
            else {
                char top = t.stk[t.sp-1]; uint32_t k = rng_below(g->r, 100);
                bool on_c = t.on == BINSON_TYPE_OBJECT || t.on == BINSON_TYPE_ARRAY;
                if (on_c && k < 45) op = t.on == BINSON_TYPE_OBJECT ? "io" : "ia";
                else if (on_c && k < 60) op = rng_chance(g->r, 1, 2) ? "raw" : "tw";
                else if (k < 70 || (k < 85 && top == 'A')) op = "n";
                else if (k < 73) op = "ne";
                else if (k < 88 && top == 'O') op = rng_chance(g->r, 1, 4) ? "fe" : "f";
                else if (k < 90 && t.on && !on_c) op = "raw";      /* get_raw on a non-container: false, nothing changes */
                else op = top == 'O' ? "lo" : "la";
            }
        }
        if (op[0] == 'f') pick_name(g, nm, &nl);
        if (!strcmp(op, "ne") || !strcmp(op, "fe")) { static const int tys[] = {1, 3, 5, 6, 7, 8, 9}; ty = tys[rng_below(g->r, 7)]; }
        call_op(p, doc, size, op, nm, nl, ty, &t);
    }
    /* a protocol-following traversal is always completed: leave every open container */
    if (!hostile) while (!t.left && !t.fresh && t.sp > 0) { if (!call_op(p, doc, size, t.stk[t.sp-1] == 'O' ? "lo" : "la", NULL, 0, 0, &t)) break; }
}

/* C10: walk everything with the parser, hand every decoded name/value to the writer, compare with the input */
static int transcribe_doc(binson_parser *p, const uint8_t *doc, size_t size, char root)
{
    size_t cap = size + 16; uint8_t *out = (uint8_t *) malloc(cap); binson_writer w; binson_writer_init(&w, out, cap);
    char stk[300]; int sp = 0; long guard = 0; int ok = 1;
    bool e = (root == 'O') ? binson_parser_go_into_object(p) : binson_parser_go_into_array(p);
    if (!e) { free(out); return 0; }
    if (root == 'O') binson_write_object_begin(&w); else binson_write_array_begin(&w);
    stk[sp++] = root;
    while (sp > 0 && ok && guard++ < 1000000) {
        if (binson_parser_next(p)) {
            if (stk[sp-1] == 'O') { bbuf *n = binson_parser_get_name(p); if (!n) { ok = 0; break; } binson_write_name_with_len(&w, (const char *) n->bptr, n->bsize); }
            switch (binson_parser_get_type(p)) {
            case BINSON_TYPE_BOOLEAN: binson_write_boolean(&w, binson_parser_get_boolean(p)); break;
            case BINSON_TYPE_INTEGER: binson_write_integer(&w, binson_parser_get_integer(p)); break;
            case BINSON_TYPE_DOUBLE:  binson_write_double(&w, binson_parser_get_double(p)); break;
            case BINSON_TYPE_STRING: { bbuf *b = binson_parser_get_string_bbuf(p); if (!b) { ok = 0; break; } binson_write_string_with_len(&w, (const char *) b->bptr, b->bsize); break; }
            case BINSON_TYPE_BYTES:  { bbuf *b = binson_parser_get_bytes_bbuf(p); if (!b) { ok = 0; break; } binson_write_bytes(&w, b->bptr, b->bsize); break; }
            case BINSON_TYPE_OBJECT: if (sp >= 299 || !binson_parser_go_into_object(p)) { ok = 0; break; } binson_write_object_begin(&w); stk[sp++] = 'O'; break;
            case BINSON_TYPE_ARRAY:  if (sp >= 299 || !binson_parser_go_into_array(p)) { ok = 0; break; } binson_write_array_begin(&w); stk[sp++] = 'A'; break;
            default: ok = 0; break;
            }
        } else {
            bool l = (stk[sp-1] == 'O') ? binson_parser_leave_object(p) : binson_parser_leave_array(p);
            if (!l) { ok = 0; break; }
            if (stk[sp-1] == 'O') binson_write_object_end(&w); else binson_write_array_end(&w);
            sp--;
        }
    }
    if (ok && (p->error_flags != BINSON_ERROR_NONE || w.error_flags != BINSON_ERROR_NONE || binson_writer_get_counter(&w) != size || memcmp(out, doc, size) != 0)) ok = 0;
    free(out);
    return ok;
}

#include <dirent.h>
/* --corpus DIR: every file of the repository's test corpus is initialised, verified and fully traversed */
static int corpus_run(const char *dir, int limit, uint64_t seed)
{
    struct dirent **names; int n = scandir(dir, &names, NULL, alphasort); int done = 0;
    rng_t r = {seed * 31 + 7}; gen_t g; memset(&g, 0, sizeof g); g.r = &r;
    int stride = (limit > 0 && n > limit) ? n / limit : 1; int phase = stride > 1 ? (int) (seed % (uint64_t) stride) : 0;
    for (int i = 0; i < n; i++) {
        if (names[i]->d_name[0] == '.') continue;
        if (stride > 1 && (i % stride) != phase) continue;       /* a seeded slice of the corpus */
        char path[1024]; snprintf(path, sizeof path, "%s/%s", dir, names[i]->d_name);
        FILE *f = fopen(path, "rb"); if (!f) continue;
        fseek(f, 0, SEEK_END); long len = ftell(f); fseek(f, 0, SEEK_SET);
        if (len < 0 || len > 20000 || (limit > 0 && done >= limit)) { fclose(f); continue; }
        uint8_t *doc = (uint8_t *) malloc((size_t) len); size_t got = fread(doc, 1, (size_t) len, f); fclose(f); (void) got;
        int maxd = 10;
        binson_parser *p = (binson_parser *) malloc(sizeof *p); binson_state *st = (binson_state *) malloc((size_t) maxd * sizeof *st);
        memset(p, 0x3C, sizeof *p); memset(st, 0x3C, (size_t) maxd * sizeof *st); p->max_depth = (uint_fast8_t) maxd; p->state = st;
        int ret = binson_parser_init_object(p, doc, (size_t) len);
        fprintf(OUTF, "{\"e\":\"I\",\"root\":\"O\",\"maxd\":%d,\"fill\":60,\"reuse\":0,\"valid\":0", maxd);
        ev_bytes("buf", doc, (size_t) len);
        fprintf(OUTF, ",\"ret\":%d,\"err\":%d}\n", ret, (int) p->error_flags); nevents++;
        track_t t0; memset(&t0, 0, sizeof t0); t0.fresh = true;
        call_op(p, doc, (size_t) len, "v", NULL, 0, 0, &t0);
        if (p->error_flags == BINSON_ERROR_NONE) walk(&g, p, doc, (size_t) len, 'O', false, -1);
        if (binson_parser_reset(p)) { int x = transcribe_doc(p, doc, (size_t) len, 'O'); fprintf(OUTF, "{\"e\":\"xc\",\"ret\":%d}\n", x); nevents++; }
        free(st); free(p); free(doc); done++;
    }
    return done;
}

int main(int argc, char **argv)
{
    uint64_t seed = 1; int ndocs = 50; const char *out = NULL; const char *mode = "mixed"; bool big = false; const char *corpus = NULL;
    for (int i = 1; i < argc; i++) {
        if (!strcmp(argv[i], "--seed")) seed = strtoull(argv[++i], NULL, 10);
        else if (!strcmp(argv[i], "--docs")) ndocs = atoi(argv[++i]);
        else if (!strcmp(argv[i], "--out")) out = argv[++i];
        else if (!strcmp(argv[i], "--mode")) mode = argv[++i];
        else if (!strcmp(argv[i], "--big")) big = true;
        else if (!strcmp(argv[i], "--corpus")) corpus = argv[++i];
    }
    OUTF = out ? fopen(out, "w") : stdout;
    if (corpus) { int k = corpus_run(corpus, ndocs, seed); fprintf(stderr, "record_parser: %d corpus files, %ld events\n", k, nevents); if (out) fclose(OUTF); return 0; }
    if (getenv("VERIF_DEBUG")) setvbuf(OUTF, NULL, _IOLBF, 0);
    rng_t r = {seed * 0x9E3779B97F4A7C15ULL + 12345};
    gen_t g; memset(&g, 0, sizeof g); g.r = &r; g.big = big;
    bb_t x = {0};
    static const int MAXDS[] = {1, 2, 3, 10, 10, 10, 255};
    binson_parser *p = (binson_parser *) malloc(sizeof *p); binson_state *st = NULL; int cur_maxd = 0;
    for (int d = 0; d < ndocs; d++) {
        char root = rng_chance(&r, 2, 3) ? 'O' : 'A';
        int maxd = MAXDS[rng_below(&r, 7)];
        int kind = !strcmp(mode, "valid") ? 0 : !strcmp(mode, "mutate") ? 1 : !strcmp(mode, "hostile") ? 2 : (int) rng_below(&r, 3);
        g.budget = 3 + (int) rng_below(&r, big ? 40 : 25);
        if (d < 10) {      /* the nesting limits, every run: 254..257 objects / arrays under max_depth 255, both roots */
            static const int DD[] = {255, 256, 257, 256, 255, 256, 254, 256, 257, 255};
            maxd = 255; root = (d & 1) ? 'A' : 'O'; kind = d < 8 ? 0 : 2;
            gen_deep(&x, root, DD[d], (d % 4) >= 2);
        }
        else if (d < 18) {   /* array chains below several object levels, elements at the bottom (every run) */
            static const int MX[8][2] = {{2, 253}, {2, 254}, {3, 253}, {2, 127}, {2, 128}, {2, 129}, {1, 200}, {3, 100}};
            maxd = 255; root = (d & 1) ? 'A' : 'O'; kind = 0;
            gen_deep_mixed(&x, root, MX[d - 10][0], MX[d - 10][1]);
        }
        else if (d < 27) {   /* long-name family (every run): {"a":1, <L x 'c'>:"x", "d":2}, read by name with the optional-field idiom */
            static const size_t LL[9] = {127, 128, 32767, 32768, 65530, 65531, 65535, 65536, 70000};
            size_t L = LL[d - 18]; uint8_t *ln = (uint8_t *) malloc(L + 1); memset(ln, 'c', L);
            uint8_t a = 'a', dd = 'd', sx = 'x';
            x.n = 0; bb_byte(&x, 0x40); enc_blob(&x, 0x14, &a, 1); enc_int(&x, 0x10, 1); enc_blob(&x, 0x14, ln, L); enc_blob(&x, 0x14, &sx, 1);
            enc_blob(&x, 0x14, &dd, 1); enc_int(&x, 0x10, 2); bb_byte(&x, 0x41);
            maxd = 3; root = 'O'; kind = 0;
            uint8_t *doc = (uint8_t *) malloc(x.n); memcpy(doc, x.b, x.n);
            free(st); st = (binson_state *) malloc((size_t) maxd * sizeof *st); memset(p, 0, sizeof *p); memset(st, 0, (size_t) maxd * sizeof *st);
            p->max_depth = (uint_fast8_t) maxd; p->state = st; cur_maxd = maxd;
            int ret = binson_parser_init_object(p, doc, x.n);
            fprintf(OUTF, "{\"e\":\"I\",\"root\":\"O\",\"maxd\":%d,\"fill\":0,\"reuse\":0,\"valid\":1", maxd);
            ev_bytes("buf", doc, x.n);
            fprintf(OUTF, ",\"ret\":%d,\"err\":%d}\n", ret, (int) p->error_flags); nevents++;
            track_t t; memset(&t, 0, sizeof t); t.fresh = true;
            call_op(p, doc, x.n, "io", NULL, 0, 0, &t);
            call_op(p, doc, x.n, "f", &a, 1, 0, &t);
            call_op(p, doc, x.n, "f", ln, L - 1, 0, &t);          /* absent, sorts just before the long name */
            call_op(p, doc, x.n, (d & 1) ? "f" : "n", ln, L, 0, &t);   /* the long-named field: by name or by next */
            call_op(p, doc, x.n, "n", NULL, 0, 0, &t);            /* "d" */
            call_op(p, doc, x.n, "n", NULL, 0, 0, &t);            /* end */
            call_op(p, doc, x.n, "lo", NULL, 0, 0, &t);
            free(ln); free(doc);
            continue;
        }
        else if (rng_chance(&r, 1, 12)) gen_deep(&x, root, (int) (rng_chance(&r, 1, 2) ? maxd + (int) rng_below(&r, 3) - 1 : 254 + (int) rng_below(&r, 3)), rng_chance(&r, 1, 2));
        else gen_doc(&g, &x, root, maxd > 12 ? 12 : maxd + 1);
        int valid_gen = 1;
        if (kind == 1 || (kind == 2 && rng_chance(&r, 1, 2))) { mutate(&r, &x); valid_gen = 0; }
        /* exact-size copy */
        uint8_t *doc = (uint8_t *) malloc(x.n); memcpy(doc, x.b, x.n);
        /* parser object: reused across documents (C12); state array re-allocated when max_depth changes */
        int fill = (int) (rng_chance(&r, 1, 3) ? rng_below(&r, 256) : 0);
        bool reuse = d > 0 && maxd == cur_maxd && rng_chance(&r, 1, 2);
        if (!reuse) { free(st); st = (binson_state *) malloc((size_t) maxd * sizeof *st); memset(p, fill, sizeof *p); memset(st, fill, (size_t) maxd * sizeof *st); p->max_depth = (uint_fast8_t) maxd; p->state = st; cur_maxd = maxd; }
        int ret = root == 'O' ? binson_parser_init_object(p, doc, x.n) : binson_parser_init_array(p, doc, x.n);
        fprintf(OUTF, "{\"e\":\"I\",\"root\":\"%c\",\"maxd\":%d,\"fill\":%d,\"reuse\":%d,\"valid\":%d", root, maxd, fill, reuse ? 1 : 0, valid_gen);
        ev_bytes("buf", doc, x.n);
        fprintf(OUTF, ",\"ret\":%d,\"err\":%d}\n", ret, (int) p->error_flags); nevents++;
        /* every document is verified first (C02 on every random / mutated document); a successful
         * verify leaves a fresh parser, so the walk below is unaffected */
        { track_t t0; memset(&t0, 0, sizeof t0); t0.fresh = true; call_op(p, doc, x.n, "v", NULL, 0, 0, &t0);
          /* a generated (valid) document that verify refuses: reset, so that the walk below is judged on its own */
          if (valid_gen && p->error_flags != BINSON_ERROR_NONE) call_op(p, doc, x.n, "rs", NULL, 0, 0, &t0); }
        walk(&g, p, doc, x.n, root, kind == 2, d < 10 ? (d < 8 ? -2 : 8) : d < 18 ? -1 : (kind != 2 && rng_chance(&r, 1, 3)) ? -1 : 4 + (int) rng_below(&r, 60));
        if (kind == 0 && (d < 18 || rng_chance(&r, 1, 2)) && binson_parser_reset(p)) {   /* the nesting-limit documents always */   /* C10: decode-then-encode must reproduce the document */
            int xr = transcribe_doc(p, doc, x.n, root); fprintf(OUTF, "{\"e\":\"xc\",\"ret\":%d}\n", xr); nevents++;
        }
        if (rng_chance(&r, 1, 3)) {           /* second pass on the same object after reset/verify (C12) */
            track_t t; memset(&t, 0, sizeof t); t.fresh = true;
            call_op(p, doc, x.n, rng_chance(&r, 1, 2) ? "v" : "rs", NULL, 0, 0, &t);
            if (p->error_flags == BINSON_ERROR_NONE) walk(&g, p, doc, x.n, root, false, 4 + (int) rng_below(&r, 40));
        }
        free(doc);
    }
    fprintf(stderr, "record_parser: %d documents, %ld events\n", ndocs, nevents);
    if (out) fclose(OUTF);
    return 0;
}
