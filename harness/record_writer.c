/* record_writer: drives the REAL writer with random call lists whose payload lengths cross the
 * 127/128, 32767/32768 and 65535/65536 boundaries (up to 70000 bytes), with capacities placed at
 * and around every piece boundary, and writes one ndjson line per execution (code -> spec).
 * spec/TraceWriter.tla validates the file against WriterA (counter, return values, error class,
 * stored prefix = canonical encoding).
 *
 *  {"cap":n,"calls":[{"op":"int","v":[8 bytes]},{"op":"str","rep":[byte,len]},...],
 *   "rets":[1,1,0],"cnt":n,"err":e,"nstored":k,"head":[first bytes stored ...],"sum":checksum,"wv":0|1}
 * Payloads are run-length encoded (one repeated byte) so that traces stay small; "head" holds the
 * first 64 stored bytes and "tail" the last 16, "sum" a byte sum of everything stored.
 */
#include "common.h"
volatile sig_atomic_t verif_in_call = 0;
void verif_watchdog_install(void (*f)(void)) { (void) f; }

typedef struct { const char *op; uint8_t v8[8]; uint8_t byte; size_t len; uint8_t lit[8]; size_t litlen; bool is_lit; } rc_t;
#define PLEN(c) ((c)->is_lit ? (c)->litlen : (c)->len)

static const size_t LENS[] = {0, 1, 2, 126, 127, 128, 129, 255, 256, 1000, 32766, 32767, 32768, 32769, 65535, 65536, 70000};
static const int64_t INTS[] = {0, 127, 128, -128, -129, 32767, 32768, -32768, -32769, 2147483647LL, 2147483648LL, -2147483648LL, -2147483649LL, INT64_MAX, INT64_MIN};

static size_t tok_size(const rc_t *c)
{
    if (!strcmp(c->op, "int")) { int64_t v; memcpy(&v, c->v8, 8); return 1 + ((v >= -128 && v <= 127) ? 1 : (v >= -32768 && v <= 32767) ? 2 : (v >= -2147483648LL && v <= 2147483647LL) ? 4 : 8); }
    if (!strcmp(c->op, "dbl")) return 9;
    if (!strcmp(c->op, "str") || !strcmp(c->op, "bytes") || !strcmp(c->op, "name")) return 1 + (PLEN(c) <= 127 ? 1 : PLEN(c) <= 32767 ? 2 : 4) + PLEN(c);
    if (!strcmp(c->op, "raw")) return PLEN(c);
    return 1;
}

/* ---- well-formed documents: nested objects and arrays, names ascending within every object ---------------- */
static const struct { uint8_t b[4]; size_t n; } POOL[] = {{{0}, 0}, {{0}, 1}, {{'a'}, 1}, {{'a', 0}, 2}, {{'a', 0, 'x'}, 3}, {{'a', 0, 'y'}, 3},
                                                          {{'a', 'a'}, 2}, {{'b'}, 1}, {{0x80}, 1}, {{0xff, 0}, 2}};
#define MAXC 600
static void fill_scalar(rng_t *r, rc_t *c);
static int gen_value(rng_t *r, rc_t *calls, int nc, int depth);
static int gen_object(rng_t *r, rc_t *calls, int nc, int depth)
{
    int pool_next = 0, wf_k = 0;
    memset(&calls[nc], 0, sizeof calls[nc]); calls[nc++].op = "ob";
    int nf = (int) rng_below(r, depth == 0 ? 5 : 3) + (depth == 0 ? 1 : 0);
    for (int k = 0; k < nf && nc < MAXC - 8 && pool_next < 10; k++) {
        rc_t *c = &calls[nc]; memset(c, 0, sizeof *c); c->op = "name"; wf_k++;
        if (wf_k == 3 && rng_chance(r, 1, 3) && pool_next <= 7) { c->len = 126 + rng_below(r, 6); c->byte = 'b'; pool_next = 8; }   /* "bbbb..." sorts after "b" */
        else { int left = 10 - pool_next; int skip = (int) rng_below(r, (uint32_t) (left > 3 ? 3 : left));
               int idx = pool_next + skip; pool_next = idx + 1;
               c->is_lit = true; c->litlen = POOL[idx].n; memcpy(c->lit, POOL[idx].b, POOL[idx].n);
               if (idx == 9 && wf_k > 1 && rng_chance(r, 1, 2)) { c->is_lit = false; c->len = 200 + (size_t) wf_k; c->byte = 0xff; pool_next = 10; } }
        nc++;
        nc = gen_value(r, calls, nc, depth);
    }
    memset(&calls[nc], 0, sizeof calls[nc]); calls[nc++].op = "oe";
    return nc;
}
static int gen_value(rng_t *r, rc_t *calls, int nc, int depth)
{
    uint32_t k = rng_below(r, depth < 3 ? 10 : 7);
    if (k >= 7 && nc < MAXC - 10) {
        if (k == 9) {   /* array of up to three values */
            memset(&calls[nc], 0, sizeof calls[nc]); calls[nc++].op = "ab";
            int ne = (int) rng_below(r, 4);
            for (int i = 0; i < ne && nc < MAXC - 8; i++) nc = gen_value(r, calls, nc, depth + 1);
            memset(&calls[nc], 0, sizeof calls[nc]); calls[nc++].op = "ae";
            return nc;
        }
        return gen_object(r, calls, nc, depth + 1);
    }
    static const char *VOPS[] = {"t", "f", "int", "int", "dbl", "str", "bytes"};
    rc_t *c = &calls[nc]; memset(c, 0, sizeof *c); c->op = VOPS[k % 7]; fill_scalar(r, c);
    return nc + 1;
}
static void fill_scalar(rng_t *r, rc_t *c)
{
    if (!strcmp(c->op, "int")) { int64_t v = rng_chance(r, 2, 3) ? (int64_t) ((uint64_t) INTS[rng_below(r, 15)] + rng_below(r, 5) - 2) : (int64_t) rng_next(r); memcpy(c->v8, &v, 8); }
    else if (!strcmp(c->op, "dbl")) { uint64_t v = rng_next(r); memcpy(c->v8, &v, 8); }
    else if (!strcmp(c->op, "str") || !strcmp(c->op, "bytes") || !strcmp(c->op, "name") || !strcmp(c->op, "raw")) {
        c->len = rng_chance(r, 1, 2) ? LENS[rng_below(r, 17)] : rng_below(r, 40);
        c->byte = (uint8_t) (!strcmp(c->op, "name") ? 'a' + rng_below(r, 26) : rng_below(r, 256));
        if (!strcmp(c->op, "name") && c->byte == 0) c->byte = 'n';
    }
}

/* C05: decoding the output by TRAVERSAL gives back the values written (lock-step walk over the call list) */
static void payload_of(const rc_t *c, uint8_t *dst) { if (c->is_lit) memcpy(dst, c->lit, c->litlen); else memset(dst, c->byte, c->len); }
static int walk_back(const rc_t *calls, int nc, const uint8_t *out, size_t len)
{
    binson_state st[12]; binson_parser p; memset(&p, 0, sizeof p); memset(st, 0, sizeof st);
    p.max_depth = 12; p.state = st;
    if (!binson_parser_init_object(&p, out, len)) return 0;
    static char stack[MAXC]; int sp = 0; const rc_t *pending = NULL; int res = 1;
    for (int i = 0; i < nc && res; i++) {
        const rc_t *c = &calls[i];
        bool in_obj = sp > 0 && stack[sp-1] == 'O';
        if (i == 0) { if (strcmp(c->op, "ob") || !binson_parser_go_into_object(&p)) return 0; stack[sp++] = 'O'; continue; }
        if (!strcmp(c->op, "oe") || !strcmp(c->op, "ae")) {
            if (binson_parser_next(&p)) return 0;
            if (!(c->op[0] == 'o' ? binson_parser_leave_object(&p) : binson_parser_leave_array(&p))) return 0;
            sp--; continue;
        }
        if (in_obj && pending == NULL) { pending = c; continue; }
        if (!binson_parser_next(&p)) return 0;
        if (in_obj) {
            bbuf *n = binson_parser_get_name(&p); size_t L = PLEN(pending); uint8_t *w = (uint8_t *) malloc(L + 1); payload_of(pending, w);
            if (!n || n->bsize != L || memcmp(n->bptr, w, L)) res = 0;
            free(w); pending = NULL;
        }
        binson_type t = binson_parser_get_type(&p);
        if (!strcmp(c->op, "ob")) { if (t != BINSON_TYPE_OBJECT || !binson_parser_go_into_object(&p)) res = 0; stack[sp++] = 'O'; }
        else if (!strcmp(c->op, "ab")) { if (t != BINSON_TYPE_ARRAY || !binson_parser_go_into_array(&p)) res = 0; stack[sp++] = 'A'; }
        else if (!strcmp(c->op, "t") || !strcmp(c->op, "f")) { if (t != BINSON_TYPE_BOOLEAN || binson_parser_get_boolean(&p) != (c->op[0] == 't')) res = 0; }
        else if (!strcmp(c->op, "int")) { int64_t v; memcpy(&v, c->v8, 8); if (t != BINSON_TYPE_INTEGER || binson_parser_get_integer(&p) != v) res = 0; }
        else if (!strcmp(c->op, "dbl")) { double d = binson_parser_get_double(&p); if (t != BINSON_TYPE_DOUBLE || memcmp(&d, c->v8, 8)) res = 0; }
        else if (!strcmp(c->op, "str") || !strcmp(c->op, "bytes")) {
            bool isb = c->op[0] == 'b'; bbuf *b = isb ? binson_parser_get_bytes_bbuf(&p) : binson_parser_get_string_bbuf(&p);
            size_t L = PLEN(c); uint8_t *w = (uint8_t *) malloc(L + 1); payload_of(c, w);
            if (t != (isb ? BINSON_TYPE_BYTES : BINSON_TYPE_STRING) || !b || b->bsize != L || memcmp(b->bptr, w, L)) res = 0;
            free(w);
        } else res = 0;
        if (sp >= MAXC - 2) return 0;
    }
    return res && sp == 0 && p.error_flags == BINSON_ERROR_NONE;
}

int main(int argc, char **argv)
{
    uint64_t seed = 1; int n = 200; const char *out = NULL;
    for (int i = 1; i < argc; i++) {
        if (!strcmp(argv[i], "--seed")) seed = strtoull(argv[++i], NULL, 10);
        else if (!strcmp(argv[i], "--runs")) n = atoi(argv[++i]);
        else if (!strcmp(argv[i], "--out")) out = argv[++i];
    }
    FILE *f = out ? fopen(out, "w") : stdout;
    rng_t r = {seed * 77 + 5};
    static const char *OPS[] = {"ob", "oe", "ab", "ae", "t", "f", "int", "int", "dbl", "str", "str", "bytes", "name", "raw"};
    for (int run = 0; run < n; run++) {
        rc_t calls[MAXC]; int nc = 1 + (int) rng_below(&r, 8); size_t total = 0; size_t bounds[2 * MAXC + 2]; int nb = 0;
        bool wellformed = (run % 3) == 0;
        if (run < 6) {
            /* deep family (every run): {"a":[[ ... N arrays ... [1,"x",2] ... ]],"z":7} - array nesting across 127/128 and up to the limit */
            static const int NN[6] = {1, 100, 127, 128, 129, 254};
            int N = NN[run]; nc = 0; wellformed = true;
#define PUSH(o) do { memset(&calls[nc], 0, sizeof calls[nc]); calls[nc].op = (o); nc++; } while (0)
            PUSH("ob"); PUSH("name"); calls[nc-1].is_lit = true; calls[nc-1].litlen = 1; calls[nc-1].lit[0] = 'a';
            for (int i = 0; i < N; i++) PUSH("ab");
            PUSH("int"); { int64_t v = 1; memcpy(calls[nc-1].v8, &v, 8); }
            PUSH("str"); calls[nc-1].is_lit = true; calls[nc-1].litlen = 1; calls[nc-1].lit[0] = 'x';
            PUSH("int"); { int64_t v = 2; memcpy(calls[nc-1].v8, &v, 8); }
            for (int i = 0; i < N; i++) PUSH("ae");
            PUSH("name"); calls[nc-1].is_lit = true; calls[nc-1].litlen = 1; calls[nc-1].lit[0] = 'z';
            PUSH("int"); { int64_t v = 7; memcpy(calls[nc-1].v8, &v, 8); }
            PUSH("oe");
#undef PUSH
        }
        else if (wellformed) nc = gen_object(&r, calls, 0, 0);
        else for (int i = 0; i < nc; i++) { rc_t *c = &calls[i]; memset(c, 0, sizeof *c); c->op = OPS[rng_below(&r, 14)]; fill_scalar(&r, c); }
        for (int i = 0; i < nc; i++) {
            rc_t *c = &calls[i];
            bounds[nb++] = total;
            size_t ts = tok_size(c);
            if (PLEN(c) > 0 && strcmp(c->op, "raw")) bounds[nb++] = total + ts - PLEN(c);   /* after the descriptor */
            total += ts;
        }
        bounds[nb++] = total;
        /* capacity: at / around a piece boundary, or anywhere */
        size_t cap;
        switch (wellformed ? rng_below(&r, 2) : rng_below(&r, 4)) {
        case 0: cap = total; break;
        case 1: cap = total + rng_below(&r, 3); break;
        case 2: { size_t b = bounds[rng_below(&r, (uint32_t) nb)]; long d = (long) rng_below(&r, 5) - 2; cap = (long) b + d < 0 ? 0 : (size_t) ((long) b + d); break; }
        default: cap = total ? rng_below(&r, (uint32_t) total + 2) : 0; break;
        }
        uint8_t *buf[3]; char rets[MAXC]; size_t cnt = 0; int err = 0; bool wv = false; size_t scnt[MAXC];
        /* run k = 2 is the writer's own answer with room for everything (self reference for C04) */
        for (int k = 0; k < 3; k++) {
            size_t kcap = k == 2 ? total * 2 + 4096 : cap;
            buf[k] = (uint8_t *) malloc(kcap); memset(buf[k], k == 1 ? 0x55 : 0xAA, kcap);
            binson_writer w; memset(&w, 0xEE, sizeof w); binson_writer_init(&w, buf[k], kcap);
            for (int i = 0; i < nc; i++) {
                rc_t *c = &calls[i]; bool ok = false; uint8_t *pl = NULL;
                size_t L = PLEN(c);
                if (L || !strcmp(c->op, "name") || !strcmp(c->op, "str") || !strcmp(c->op, "bytes") || !strcmp(c->op, "raw")) { pl = (uint8_t *) malloc(L + 1); if (c->is_lit) memcpy(pl, c->lit, L); else memset(pl, c->byte, L); pl[L] = 0; }
                if      (!strcmp(c->op, "ob")) ok = binson_write_object_begin(&w);
                else if (!strcmp(c->op, "oe")) ok = binson_write_object_end(&w);
                else if (!strcmp(c->op, "ab")) ok = binson_write_array_begin(&w);
                else if (!strcmp(c->op, "ae")) ok = binson_write_array_end(&w);
                else if (!strcmp(c->op, "t"))  ok = binson_write_boolean(&w, true);
                else if (!strcmp(c->op, "f"))  ok = binson_write_boolean(&w, false);
                else if (!strcmp(c->op, "int")) { int64_t v; memcpy(&v, c->v8, 8); ok = binson_write_integer(&w, v); }
                else if (!strcmp(c->op, "dbl")) { double d; memcpy(&d, c->v8, 8); ok = binson_write_double(&w, d); }
                else if (!strcmp(c->op, "str")) ok = binson_write_string_with_len(&w, (const char *) pl, L);
                else if (!strcmp(c->op, "name")) ok = ((run & 1) && memchr(pl, 0, L) == NULL) ? binson_write_name(&w, (const char *) pl) : binson_write_name_with_len(&w, (const char *) pl, L);
                else if (!strcmp(c->op, "bytes")) ok = binson_write_bytes(&w, pl, L);
                else if (!strcmp(c->op, "raw")) ok = binson_write_raw(&w, pl, L);
                free(pl);
                if (k == 0) rets[i] = ok ? 1 : 0;
                if (k == 2) scnt[i] = binson_writer_get_counter(&w);
            }
            if (k == 0) { cnt = binson_writer_get_counter(&w); err = (int) w.error_flags; if (err == 0) wv = binson_writer_verify(&w); }
        }
        /* parse-back by traversal of the self-run output (room for everything) when the list is a well-formed object without raw calls */
        int pb = -1;
        if (wellformed) { bool raw = false; for (int i = 0; i < nc; i++) if (!strcmp(calls[i].op, "raw")) raw = true;
                          if (!raw) pb = walk_back(calls, nc, buf[2], scnt[nc - 1]); }
        size_t ns = 0; bool contiguous = true; unsigned long sum = 0;
        for (size_t i = 0; i < cap; i++) if (buf[0][i] == buf[1][i]) { if (i != ns) contiguous = false; ns = i + 1; sum = (sum + buf[0][i] * (unsigned long) (1 + (i % 251))) % 1000003UL; }
        fprintf(f, "{\"cap\":%zu,\"calls\":[", cap);
        for (int i = 0; i < nc; i++) {
            rc_t *c = &calls[i];
            fprintf(f, "%s{\"op\":\"%s\",\"v\":[", i ? "," : "", c->op);
            if (!strcmp(c->op, "int") || !strcmp(c->op, "dbl")) for (int k = 0; k < 8; k++) fprintf(f, k ? ",%u" : "%u", c->v8[k]);
            fprintf(f, "],\"rep\":[%u,%zu],\"lit\":[", c->byte, c->is_lit ? (size_t) 0 : c->len);
            if (c->is_lit) for (size_t k = 0; k < c->litlen; k++) fprintf(f, k ? ",%u" : "%u", c->lit[k]);
            fprintf(f, "]}");
        }
        fprintf(f, "],\"rets\":[");
        for (int i = 0; i < nc; i++) fprintf(f, i ? ",%d" : "%d", rets[i]);
        fprintf(f, "],\"scnt\":[");
        for (int i = 0; i < nc; i++) fprintf(f, i ? ",%zu" : "%zu", scnt[i]);
        fprintf(f, "],\"cnt\":%zu,\"err\":%d,\"nstored\":%zu,\"contig\":%d,\"sum\":%lu,\"wv\":%d,\"pb\":%d,\"head\":[", cnt, err, ns, contiguous ? 1 : 0, sum, wv ? 1 : 0, pb);
        for (size_t i = 0; i < ns && i < 64; i++) fprintf(f, i ? ",%u" : "%u", buf[0][i]);
        fprintf(f, "],\"tail\":[");
        for (size_t i = ns > 16 ? ns - 16 : 0, k = 0; i < ns; i++, k++) fprintf(f, k ? ",%u" : "%u", buf[0][i]);
        fprintf(f, "]}\n");
        free(buf[0]); free(buf[1]); free(buf[2]);
    }
    if (out) fclose(f);
    fprintf(stderr, "record_writer: %d executions\n", n);
    return 0;
}
