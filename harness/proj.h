/* Projection of a parser object onto what the specification talks about.
 * Black box: public functions plus parser->error_flags (which README and tests
 * treat as API).  White box (internal; a mismatch is model drift, never a
 * violation): parser->buffer_used.
 */
#ifndef VERIF_PROJ_H
#define VERIF_PROJ_H
#include "common.h"

typedef struct {
    int  ret;
    int  err;
    long depth;
    int  type;
    int  has_name; long n_off, n_len;
    /* value getters, all of them, whatever the type */
    uint8_t i8[8];          /* get_integer, little endian image */
    uint8_t d8[8];          /* get_double, memcpy of the object representation */
    int  b;                 /* get_boolean */
    int  has_str; long s_off, s_len;
    int  has_bytes; long y_off, y_len;
    long used;              /* white box */
} obs_t;

static inline void le64(uint8_t out[8], uint64_t v)
{
    for (int i = 0; i < 8; i++) { out[i] = (uint8_t) (v & 0xFF); v >>= 8; }
}

/* getters only; never calls get_name (it SETS an error when there is no name) */
static inline void project_values(binson_parser *p, const uint8_t *doc, obs_t *o)
{
    o->err   = (int) p->error_flags;
    o->depth = (long) binson_parser_get_depth(p);
    o->type  = (int) binson_parser_get_type(p);
    le64(o->i8, (uint64_t) binson_parser_get_integer(p));
    double d = binson_parser_get_double(p);
    uint64_t db; memcpy(&db, &d, 8); le64(o->d8, db);
    o->b = binson_parser_get_boolean(p) ? 1 : 0;
    bbuf *s = binson_parser_get_string_bbuf(p);
    o->has_str = (s != NULL);
    o->s_off = s ? (long) (s->bptr - doc) : 0; o->s_len = s ? (long) s->bsize : 0;
    bbuf *y = binson_parser_get_bytes_bbuf(p);
    o->has_bytes = (y != NULL);
    o->y_off = y ? (long) (y->bptr - doc) : 0; o->y_len = y ? (long) y->bsize : 0;
    o->used = (long) p->buffer_used;
    o->err  = (int) p->error_flags;
}

static inline void project_name(binson_parser *p, const uint8_t *doc, obs_t *o)
{
    bbuf *n = binson_parser_get_name(p);
    o->has_name = (n != NULL);
    o->n_off = n ? (long) (n->bptr - doc) : 0; o->n_len = n ? (long) n->bsize : 0;
}

static inline bool all_zero8(const uint8_t b[8])
{
    for (int i = 0; i < 8; i++) if (b[i]) return false;
    return true;
}

#endif
