/* record_tostring: drives the REAL binson_parser_to_string / binson_parser_print on random
 * documents (byte strings up to 4 KiB, huge doubles such as 1e308 that print 300+ digits,
 * deep nesting, long names, mutated documents) with a sweep of capacities per document, and
 * writes one ndjson line per document (code -> spec).  spec/TraceToString.tla validates it.
 *
 *  {"root":"O","maxd":10,"buf":[..],"fmt":[[[8 bytes],[text]],...],
 *   "runs":[{"cap":n|-1,"ret":0|1,"size":n,"text":[..]|[],"hw":k}...],"pret":0|1,"print":[..]}
 * "fmt" is the platform's %f text of every 0x46 token candidate in the buffer, produced here by
 * snprintf directly (not through the library).  hw = highest index stored into + 1.
 */
#include "gen.h"
#include <fcntl.h>
volatile sig_atomic_t verif_in_call = 0;
void verif_watchdog_install(void (*f)(void)) { (void) f; }

static void jbytes(FILE *f, const uint8_t *b, size_t n) { fputc('[', f); for (size_t i = 0; i < n; i++) fprintf(f, i ? ",%u" : "%u", b[i]); fputc(']', f); }

int main(int argc, char **argv)
{
    uint64_t seed = 1; int ndocs = 100; const char *out = NULL; bool big = false;
    for (int i = 1; i < argc; i++) {
        if (!strcmp(argv[i], "--seed")) seed = strtoull(argv[++i], NULL, 10);
        else if (!strcmp(argv[i], "--docs")) ndocs = atoi(argv[++i]);
        else if (!strcmp(argv[i], "--out")) out = argv[++i];
        else if (!strcmp(argv[i], "--big")) big = true;
    }
    FILE *f = out ? fopen(out, "w") : stdout;
    static char obuf[1 << 16]; setvbuf(stdout, obuf, _IOFBF, sizeof obuf);
    rng_t r = {seed * 1315423911ULL + 99};
    gen_t g; memset(&g, 0, sizeof g); g.r = &r; g.big = false;
    bb_t x = {0};
    for (int d = 0; d < ndocs; d++) {
        char root = rng_chance(&r, 3, 4) ? 'O' : 'A'; int maxd = rng_chance(&r, 1, 5) ? 3 : 10;
        g.budget = 2 + (int) rng_below(&r, big ? 30 : 12);
        if (rng_chance(&r, 1, 15)) gen_deep(&x, root, 2 + (int) rng_below(&r, 12), rng_chance(&r, 1, 2));
        else gen_doc(&g, &x, root, maxd);
        if (big && rng_chance(&r, 1, 4)) {           /* a 1..4 KiB byte string or a 300-digit double inside an array */
            bb_t y = {0}; bb_byte(&y, (uint8_t) (root == 'O' ? 0x40 : 0x42));
            if (root == 'O') { uint8_t nm = 'k'; enc_blob(&y, 0x14, &nm, 1); }
            if (rng_chance(&r, 1, 2)) { size_t l = 1000 + rng_below(&r, 3100); if (rng_chance(&r, 1, 6)) l = 65534 + rng_below(&r, 5);   /* 16-bit counters */ uint8_t *p = (uint8_t *) malloc(l); rnd_bytes(&r, p, l, false); enc_blob(&y, 0x18, p, l); free(p); }
            else { uint64_t dv = rng_chance(&r, 1, 2) ? 0x7FE1CCF385EBC8A0ULL : 0xFFEFFFFFFFFFFFFFULL; bb_byte(&y, 0x46); for (int i = 0; i < 8; i++) { bb_byte(&y, (uint8_t) (dv & 0xFF)); dv >>= 8; } }
            bb_byte(&y, (uint8_t) (root == 'O' ? 0x41 : 0x43)); x.n = 0; bb_put(&x, y.b, y.n); free(y.b);
        }
        if (rng_chance(&r, 1, 6)) mutate(&r, &x);
        uint8_t *doc = (uint8_t *) malloc(x.n); memcpy(doc, x.b, x.n);
        binson_parser *p = (binson_parser *) malloc(sizeof *p); binson_state *st = (binson_state *) malloc((size_t) maxd * sizeof *st);
        memset(p, 0x5A, sizeof *p); memset(st, 0x5A, (size_t) maxd * sizeof *st); p->max_depth = (uint_fast8_t) maxd; p->state = st;
        bool iok = (root == 'O') ? binson_parser_init_object(p, doc, x.n) : binson_parser_init_array(p, doc, x.n);
        /* prior use of the parser object must not matter (to_string is verify-based) */
        if (iok && (d % 3) == 1) { (void) binson_parser_get_name(p); }
        if (iok && (d % 3) == 2) { if (root == 'O') binson_parser_go_into_object(p); else binson_parser_go_into_array(p); binson_parser_next(p); }
        fprintf(f, "{\"root\":\"%c\",\"maxd\":%d,\"buf\":", root, maxd); jbytes(f, doc, x.n);
        /* %f of every candidate double (every 0x46 byte followed by 8 bytes) */
        fprintf(f, ",\"fmt\":["); int nf = 0;
        for (size_t i = 0; i + 9 <= x.n; i++) if (doc[i] == 0x46) {
            double dv; memcpy(&dv, doc + i + 1, 8); char txt[400]; int n = snprintf(txt, sizeof txt, "%f", dv);
            fprintf(f, "%s[", nf++ ? "," : ""); jbytes(f, doc + i + 1, 8); fputc(',', f); jbytes(f, (const uint8_t *) txt, (size_t) n); fputc(']', f);
        }
        fprintf(f, "]");
        rec_watchdog(60);
        size_t need = 55; bool r0 = binson_parser_to_string(p, NULL, &need, true);
        /* capacities: NULL, 0, around need, around cuts */
        long caps[40]; int nc = 0; caps[nc++] = -1; caps[nc++] = 0;
        for (long dd = -3; dd <= 2; dd++) if ((long) need + dd >= 0) caps[nc++] = (long) need + dd;
        if (need <= 300) { for (long c = 1; c < (long) need && nc < 38; c += 1 + (long) rng_below(&r, 3)) caps[nc++] = c; }
        else for (int k = 0; k < (need > 20000 ? 3 : 14); k++) caps[nc++] = (long) rng_below(&r, (uint32_t) need);
        fprintf(f, ",\"r0\":%d,\"need\":%zu,\"runs\":[", r0 ? 1 : 0, need);
        for (int k = 0; k < nc; k++) {
            long cap = caps[k]; char *dst[2] = {NULL, NULL}; size_t sz[2]; bool rt[2];
            for (int q = 0; q < 2; q++) {
                if (cap >= 0) { dst[q] = (char *) malloc((size_t) cap); memset(dst[q], q ? 0x55 : 0xAA, (size_t) cap); }
                sz[q] = cap >= 0 ? (size_t) cap : 777;
                rt[q] = binson_parser_to_string(p, dst[q], &sz[q], true);
            }
            long hw = 0; for (long i = 0; i < cap; i++) if (dst[0][i] == dst[1][i]) hw = i + 1;
            fprintf(f, "%s{\"cap\":%ld,\"ret\":%d,\"size\":%zu,\"hw\":%ld,\"same\":%d,\"text\":", k ? "," : "", cap, rt[0] ? 1 : 0, sz[0], hw, (rt[0] == rt[1] && sz[0] == sz[1]) ? 1 : 0);
            if (rt[0]) jbytes(f, (const uint8_t *) dst[0], sz[0] + 1); else fprintf(f, "[]");
            fputc('}', f);
            free(dst[0]); free(dst[1]);
        }
        /* print, captured */
        char path[] = "/tmp/verif-rt-XXXXXX"; int fd = mkstemp(path); unlink(path);
        fflush(stdout); int saved = dup(1); dup2(fd, 1);
        bool pr = binson_parser_print(p);
        fflush(stdout); dup2(saved, 1); close(saved);
        off_t n = lseek(fd, 0, SEEK_END); uint8_t *pb = (uint8_t *) malloc((size_t) n + 1); lseek(fd, 0, SEEK_SET); ssize_t got = read(fd, pb, (size_t) n); (void) got; close(fd);
        alarm(0);
        fprintf(f, "],\"pret\":%d,\"print\":", pr ? 1 : 0); jbytes(f, pb, (size_t) n); fprintf(f, "}\n");
        free(pb); free(doc); free(st); free(p);
    }
    if (out) fclose(f);
    fprintf(stderr, "record_tostring: %d documents\n", ndocs);
    return 0;
}
