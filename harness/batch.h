/* Batch runner shared by the replayers.
 *
 * Behaviour lines are executed in forked children, a few thousand per child.  All
 * counters live in a MAP_SHARED block, so that when a child dies (sanitizer report,
 * signal, watchdog) the parent knows exactly which line it was executing, reports it
 * as a violation of the run's memory/termination property, confirms it by running that
 * single line again, and carries on with the next line.
 */
#ifndef VERIF_BATCH_H
#define VERIF_BATCH_H
#include "common.h"
#include <sys/mman.h>
#include <sys/wait.h>
#include <fcntl.h>

#define BATCH_LINES 4000
#define HANG_EXIT   44

typedef struct {
    long idx;                   /* index of the line being executed in the current batch */
    long lines, steps, checked_fields, probes;
    long viol_own, viol_other, drift_ret, drift_used, abandoned, auto_finished;
    long crashes, hangs, flaky;
    long nviol_files, nsamples;
    long extra[16];
} shared_t;

typedef struct {
    const char *prop;           /* property this run is for */
    const char *memprop;        /* property a crash is attributed to */
    const char *outdir;
    const char *prefix;         /* behaviour lines start with this */
    long max_report;
    FILE *tlclog;
    FILE *samples;
    FILE *transcript;           /* C18: every observable of every call, for cross-build comparison */
    bool tr_on;
} cfg_t;

static shared_t *S;
static cfg_t G;
#define TR(...) do { if (G.transcript && G.tr_on) fprintf(G.transcript, __VA_ARGS__); } while (0)
static inline void tr_hex(const uint8_t *b, size_t n) { if (G.transcript && G.tr_on) for (size_t i = 0; i < n; i++) fprintf(G.transcript, "%02x", b[i]); }
static const char *g_line;

volatile sig_atomic_t verif_in_call = 0;
static void on_alarm(int sig) { (void) sig; if (verif_in_call) _exit(HANG_EXIT); }
void verif_watchdog_install(void (*f)(void)) { (void) f; signal(SIGALRM, on_alarm); }

/* ---- violation reporting ------------------------------------------------- */
static void report(const char *prop, const char *line, const char *fmt, ...)
{
    char detail[1024];
    va_list ap; va_start(ap, fmt); vsnprintf(detail, sizeof detail, fmt, ap); va_end(ap);
    /* prop may be a comma separated set: the violation is in the scope of each of them */
    bool own = (strstr(prop, G.prop) != NULL);
    if (own) prop = G.prop;
    if (own) S->viol_own++; else S->viol_other++;
    long n = own ? S->viol_own : S->viol_other;
    if (n > G.max_report) return;
    char path[600];
    snprintf(path, sizeof path, "%s/viol-%s-%ld.beh", G.outdir, prop, ++S->nviol_files);
    FILE *f = fopen(path, "w");
    if (f) { fprintf(f, "%s\n# property=%s\n# %s\n", line, prop, detail); fclose(f); }
    if (own) printf("VIOLATION property=%s replay=%s\n", prop, path);
    else     printf("NOTE other-property violation property=%s replay=%s (not counted by the %s check)\n", prop, path, G.prop);
    printf("  detail: %s\n", detail);
    fflush(stdout);
}

typedef long (*line_fn)(const char *line);     /* returns the number of violations it reported */

static int run_child(char **batch, long from, long to, line_fn fn, bool confirm)
{
    fflush(NULL);
    pid_t pid = fork();
    if (pid < 0) { perror("fork"); exit(2); }
    if (pid == 0) {
        for (long i = from; i < to; i++) {
            S->idx = i; g_line = batch[i];
            if (!confirm) S->lines++;
            G.tr_on = !confirm;
            TR("# %s\n", batch[i]);
            long v = fn(batch[i]);
            G.tr_on = false;
            if (v > 0 && !confirm) {
                /* deterministic library: a real violation repeats */
                shared_t keep = *S; long mr = G.max_report; G.max_report = 0;
                long again = fn(batch[i]);
                G.max_report = mr; *S = keep;
                if (again == 0) { S->flaky++; printf("NOTE flaky: violation did not repeat on: %s\n", batch[i]); }
            }
            if (!confirm && G.samples && (S->lines <= 3 || (S->lines % 9973) == 0) && S->nsamples < 12) {
                fprintf(G.samples, "%s\n", batch[i]); S->nsamples++;
            }
        }
        fflush(NULL);
        _exit(0);
    }
    int status = 0;
    waitpid(pid, &status, 0);
    return status;
}

#define MAX_CRASHES 20
static void process_batch(char **batch, long n, line_fn fn)
{
    long from = 0;
    while (from < n) {
        if (S->crashes + S->hangs >= MAX_CRASHES) { S->extra[1] += n - from; return; }   /* skipped: enough evidence */
        int status = run_child(batch, from, n, fn, false);
        if (WIFEXITED(status) && WEXITSTATUS(status) == 0) break;
        long at = S->idx;
        bool hang = WIFEXITED(status) && WEXITSTATUS(status) == HANG_EXIT;
        /* confirm on the single line */
        shared_t keep = *S;
        int st2 = run_child(batch, at, at + 1, fn, true);
        *S = keep;
        bool again = !(WIFEXITED(st2) && WEXITSTATUS(st2) == 0);
        if (again) {
            if (hang) { S->hangs++; report("C16", batch[at], "call did not return within the watchdog limit"); }
            else { S->crashes++;
                   report(G.memprop, batch[at], "process died while executing this behaviour (%s %d): sanitizer report or signal, see stderr",
                          WIFSIGNALED(status) ? "signal" : "exit code", WIFSIGNALED(status) ? WTERMSIG(status) : WEXITSTATUS(status)); }
        } else { S->flaky++; printf("NOTE flaky: child died once on: %s\n", batch[at]); }
        from = at + 1;
    }
}

/* reads `in`; behaviour lines go to fn in batches, everything else to G.tlclog */
static void batch_run(FILE *in, line_fn fn)
{
    S = (shared_t *) mmap(NULL, sizeof *S, PROT_READ | PROT_WRITE, MAP_SHARED | MAP_ANONYMOUS, -1, 0);
    if (S == MAP_FAILED) { perror("mmap"); exit(2); }
    memset(S, 0, sizeof *S);
    verif_watchdog_install(NULL);
    char **batch = (char **) calloc(BATCH_LINES, sizeof *batch);
    long nb = 0;
    char *line = NULL; size_t cap = 0; ssize_t n;
    size_t plen = strlen(G.prefix);
    while ((n = getline(&line, &cap, in)) > 0) {
        while (n > 0 && (line[n-1] == '\n' || line[n-1] == '\r')) line[--n] = 0;
        char *l = line; bool quoted = false;
        if (l[0] == '"') { quoted = true; l++; n--; }
        if (strncmp(l, G.prefix, plen) != 0) {
            if (G.tlclog && line[0] != '#') { fputs(line, G.tlclog); fputc('\n', G.tlclog); }
            continue;
        }
        if (quoted && n > 0 && l[n-1] == '"') l[--n] = 0;
        batch[nb++] = strdup(l);
        if (nb == BATCH_LINES) { process_batch(batch, nb, fn); for (long i = 0; i < nb; i++) free(batch[i]); nb = 0; }
    }
    if (nb) { process_batch(batch, nb, fn); for (long i = 0; i < nb; i++) free(batch[i]); }
    free(batch); free(line);
    if (G.tlclog) fclose(G.tlclog);
    if (G.samples) fclose(G.samples);
    if (G.transcript) fclose(G.transcript);
}

static int batch_args(int argc, char **argv, const char **summary, const char **replay)
{
    memset(&G, 0, sizeof G);
    G.prop = "C00"; G.memprop = "C01"; G.outdir = "."; G.max_report = 5; G.prefix = "BEH ";
    for (int i = 1; i < argc; i++) {
        if (!strcmp(argv[i], "--prop") && i + 1 < argc) G.prop = argv[++i];
        else if (!strcmp(argv[i], "--memprop") && i + 1 < argc) G.memprop = argv[++i];
        else if (!strcmp(argv[i], "--outdir") && i + 1 < argc) G.outdir = argv[++i];
        else if (!strcmp(argv[i], "--tlclog") && i + 1 < argc) G.tlclog = fopen(argv[++i], "w");
        else if (!strcmp(argv[i], "--summary") && i + 1 < argc) *summary = argv[++i];
        else if (!strcmp(argv[i], "--replay") && i + 1 < argc) *replay = argv[++i];
        else if (!strcmp(argv[i], "--samples") && i + 1 < argc) G.samples = fopen(argv[++i], "w");
        else if (!strcmp(argv[i], "--transcript") && i + 1 < argc) G.transcript = fopen(argv[++i], "w");
        else if (!strcmp(argv[i], "--max-report") && i + 1 < argc) G.max_report = atol(argv[++i]);
        else { fprintf(stderr, "usage: %s --prop Cnn [--memprop Cnn] --outdir DIR [--tlclog F] [--summary F] [--samples F] [--replay FILE]\n", argv[0]); return 2; }
    }
    mkdir(G.outdir, 0777);
    return 0;
}

static void batch_summary(const char *summary, const char *who)
{
    if (summary) {
        FILE *f = fopen(summary, "w");
        if (f) {
            fprintf(f, "{\"behaviours\":%ld,\"calls\":%ld,\"expected_fields_compared\":%ld,\"reuse_probes\":%ld,"
                       "\"violations_own\":%ld,\"violations_other\":%ld,\"drift_ret\":%ld,\"drift_used\":%ld,"
                       "\"drift_obs\":%ld,\"abandoned_by_drift\":%ld,\"auto_finished\":%ld,\"crashes\":%ld,\"hangs\":%ld,\"flaky\":%ld}\n",
                    S->lines, S->steps, S->checked_fields, S->probes, S->viol_own, S->viol_other, S->drift_ret, S->drift_used,
                    S->extra[0], S->abandoned, S->auto_finished, S->crashes, S->hangs, S->flaky, S->extra[1]);
            fclose(f);
        }
    }
    fprintf(stderr, "%s[%s]: %ld behaviours, %ld calls, %ld own violations, %ld other, %ld crashes, %ld hangs, drift ret/used %ld/%ld\n",
            who, G.prop, S->lines, S->steps, S->viol_own, S->viol_other, S->crashes, S->hangs, S->drift_ret, S->drift_used);
}
#endif
