"""Shared driver code: builds from /repo's working tree, TLC runs, evidence, verdicts."""
import hashlib, json, os, re, shutil, subprocess, sys, time, glob

VERIF = os.path.dirname(os.path.dirname(os.path.abspath(__file__)))
REPO = os.environ.get("VERIF_REPO", "/repo")
OUT = os.environ.get("VERIF_OUT", os.path.join(VERIF, "out"))      # scratch (the mutation matrix points it elsewhere)
BUILD = os.path.join(VERIF, "build")
SPEC = os.path.join(VERIF, "spec")
HARNESS = os.path.join(VERIF, "harness")
EVID = os.environ.get("VERIF_EVID", os.path.join(VERIF, "evidence"))
SEED = int(os.environ.get("VERIF_SEED", "1") or "1")
NCPU = os.cpu_count() or 4

LIB_C = ["src/binson_parser.c", "src/binson_writer.c"]
LIB_CPP = ["src/binson.cpp"]
GUARD = "BINSON_VERIF"


class Infra(Exception):
    """infrastructure failure: exit code 2, never 0 and never a VIOLATION"""


def log(*a):
    print(*a, file=sys.stderr, flush=True)


def sh(cmd, **kw):
    return subprocess.run(cmd, shell=isinstance(cmd, str), **kw)


def repo_hash():
    h = hashlib.sha256()
    for pat in ("src/*", "include/*"):
        for f in sorted(glob.glob(os.path.join(REPO, pat))):
            h.update(f.encode()); h.update(open(f, "rb").read())
    for f in sorted(glob.glob(os.path.join(HARNESS, "*"))):
        h.update(f.encode()); h.update(open(f, "rb").read())
    return h.hexdigest()[:16]


CONFIGS = {
    # name: (cc, cxx, flags)
    "asan": ("gcc", "g++", "-O1 -g -fno-omit-frame-pointer -fsanitize=address,undefined -fno-sanitize-recover=undefined"),
    "plain": ("gcc", "g++", "-O2 -g"),
    # memory errors only: for call sequences OUTSIDE the documented preconditions (lookups in array context compare
    # against a level that has no name: memcmp(p, NULL, 0), which UBSan's nonnull check would abort on)
    "asan-noub": ("gcc", "g++", "-O1 -g -fno-omit-frame-pointer -fsanitize=address"),
    # the library WITHOUT -DBINSON_PARSER_WITH_PRINT (the repository's other build configuration)
    "asan-noprint": ("gcc", "g++", "-O1 -g -fno-omit-frame-pointer -fsanitize=address,undefined -fno-sanitize-recover=undefined"),
}


def build(config="asan", programs=(), extra_defs="", cc=None, flags=None, tag=None):
    """Compile the library sources from REPO's working tree plus the named harness
    programs into build/<config>-<hash>/ ; returns that directory.  Rebuilds whenever a
    repository or harness source changed (directory keyed by content hash)."""
    ccn, cxxn, fl = CONFIGS.get(config, CONFIGS["asan"])
    if cc: ccn = cc; cxxn = {"gcc": "g++", "clang": "clang++"}.get(cc, cc)
    if flags is not None: fl = flags
    key = hashlib.sha256((repo_hash() + config + ccn + fl + extra_defs).encode()).hexdigest()[:12]
    d = os.path.join(BUILD, "%s-%s" % (tag or config, key))
    os.makedirs(d, exist_ok=True)
    os.utime(d, None)              # in use (see clean_old_builds)
    inc = "-I%s/include -I%s" % (REPO, HARNESS)
    defs = "%s-D%s %s" % ("" if config.endswith("noprint") else "-DBINSON_PARSER_WITH_PRINT ", GUARD, extra_defs)
    objs = []
    for src in LIB_C:
        o = os.path.join(d, os.path.basename(src) + ".o")
        if not os.path.exists(o):
            tmp = "%s.tmp%d" % (o, os.getpid())      # atomic: checks may run concurrently
            r = sh("%s -std=c99 %s %s %s -c %s/%s -o %s" % (ccn, fl, defs, inc, REPO, src, tmp), capture_output=True, text=True)
            if r.returncode != 0:
                raise Infra("repository source %s does not compile (%s):\n%s" % (src, config, r.stderr[-2000:]))
            os.replace(tmp, o)
        objs.append(o)
    cppo = None
    for prog in programs:
        exe = os.path.join(d, prog)
        if os.path.exists(exe):
            continue
        srcc = os.path.join(HARNESS, prog + ".c")
        srcpp = os.path.join(HARNESS, prog + ".cpp")
        tmpx = "%s.tmp%d" % (exe, os.getpid())
        if os.path.exists(srcc):
            r = sh("%s -std=gnu99 %s %s %s %s %s -o %s" % (ccn, fl, defs, inc, srcc, " ".join(objs), tmpx), capture_output=True, text=True)
        else:
            if cppo is None:
                cppo = os.path.join(d, "binson.cpp.o")
                if not os.path.exists(cppo):
                    tmpo = "%s.tmp%d" % (cppo, os.getpid())
                    r = sh("%s -std=c++11 %s %s %s -c %s/%s -o %s" % (cxxn, fl, defs, inc, REPO, LIB_CPP[0], tmpo), capture_output=True, text=True)
                    if r.returncode != 0:
                        raise Infra("repository source binson.cpp does not compile:\n%s" % r.stderr[-2000:])
                    os.replace(tmpo, cppo)
            r = sh("%s -std=c++11 %s %s %s %s %s %s -o %s" % (cxxn, fl, defs, inc, srcpp, cppo, " ".join(objs), tmpx), capture_output=True, text=True)
        if r.returncode != 0:
            raise Infra("harness %s does not compile against the current tree:\n%s" % (prog, r.stderr[-3000:]))
        os.replace(tmpx, exe)
    return d


def clean_old_builds(keep=6, min_age_s=3 * 3600):
    """removes build directories that no check has used for hours (never one that a concurrently running check may
    still be executing from: build() refreshes the directory's mtime on every use)"""
    if not os.path.isdir(BUILD):
        return
    now = time.time()
    ds = sorted((os.path.join(BUILD, x) for x in os.listdir(BUILD)), key=os.path.getmtime)
    for d in ds[:-keep]:
        try:
            if now - os.path.getmtime(d) > min_age_s:
                shutil.rmtree(d, ignore_errors=True)
        except OSError:
            pass


# ------------------------------------------------------------------ TLC
TLC_JAR = "/opt/veriftools/tla/tla2tools.jar:/opt/veriftools/tla/CommunityModules-deps.jar"


def tlc_cmd(module, cfg, workers=None, metadir=None, extra="", heap="8g", simulate=None):
    workers = workers or NCPU
    return ("java -XX:+UseParallelGC -Xss512m -Xmx%s -cp %s tlc2.TLC -noGenerateSpecTE -workers %s -metadir %s -config %s %s %s %s" %
            (heap, TLC_JAR, workers, metadir, cfg, ("-simulate " + simulate) if simulate else "", extra, module))


def parse_tlc_log(text):
    """returns dict(states, distinct, depth, ok, violated, error)"""
    res = {"states": 0, "distinct": 0, "depth": 0, "ok": False, "violated": None, "error": None}
    m = re.findall(r"(\d[\d,]*) states generated, (\d[\d,]*) distinct states found", text)
    if m:
        res["states"] = int(m[-1][0].replace(",", "")); res["distinct"] = int(m[-1][1].replace(",", ""))
    m = re.search(r"depth of the complete state graph search is (\d+)", text)
    if m: res["depth"] = int(m.group(1))
    if "Model checking completed. No error has been found." in text:
        res["ok"] = True
    m = re.search(r"Invariant (\w+) is violated", text)
    if m: res["violated"] = m.group(1)
    m = re.search(r"(Temporal properties were violated|Action property \w+ is violated|is violated by the initial state)", text)
    if m and not res["violated"]: res["violated"] = m.group(1)
    if not res["ok"] and not res["violated"]:
        m = re.search(r"Error: (.*)", text)
        res["error"] = m.group(1) if m else "TLC did not finish"
    return res


def mk_cfg(path, base_cfg, overrides):
    """copy a .cfg replacing `NAME = value` / `NAME <- value` lines"""
    txt = open(base_cfg).read()
    for k, v in overrides.items():
        txt, n = re.subn(r"(?m)^(\s*%s\s*(?:=|<-)\s*).*$" % re.escape(k), lambda m: m.group(1) + str(v), txt)
        if n == 0:
            raise Infra("cfg %s has no constant %s" % (base_cfg, k))
    open(path, "w").write(txt)


# ------------------------------------------------------------------ evidence
def write_evidence(prop, tier, level, coverage, assumptions, wall, violations, extra=None):
    os.makedirs(EVID, exist_ok=True)
    ev = {"property_id": prop, "tier": tier, "seed": SEED, "level": level, "coverage": coverage,
          "assumptions": assumptions, "wall_s": round(wall, 2), "violations": violations}
    if extra: ev.update(extra)
    with open(os.path.join(EVID, prop + ".json"), "w") as f:
        json.dump(ev, f, indent=1)


def known_findings():
    p = os.path.join(VERIF, "known_findings.json")
    return json.load(open(p)) if os.path.exists(p) else {"findings": []}


def read_json(path, default=None):
    try:
        return json.load(open(path))
    except Exception:
        return default
