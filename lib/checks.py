"""Per-property checks.  Every check = a list of stages; a stage either
  * explores a TLC model and replays every behaviour it prints into the real library
    (spec -> code), or
  * records executions of the real library and has TLC validate them against the
    specification (code -> spec).
Only an observable of the REAL library that Layer A forbids is a VIOLATION."""
import json, os, re, shutil, subprocess, sys, time, tempfile
import vlib
from vlib import Infra, log, OUT, SPEC, VERIF

REGISTRY = {}
MEMPROP = {"replay_parser": "C01", "replay_writer": "C04", "replay_tostring": "C13", "replay_class": "C15"}


def _env():
    e = dict(os.environ)
    e["ASAN_OPTIONS"] = "exitcode=66:abort_on_error=0:detect_leaks=0:allocator_may_return_null=1:detect_stack_use_after_return=1"
    e["UBSAN_OPTIONS"] = "print_stacktrace=1:halt_on_error=1:exitcode=67"
    return e


def _filter_known(prop, lines):
    """turn VIOLATION lines that match an OPEN known finding into KNOWN-FINDING lines"""
    kf = [f for f in vlib.known_findings().get("findings", []) if f.get("status") == "open"]
    out, nviol, nknown = [], 0, 0
    for ln in lines:
        m = re.match(r"VIOLATION property=(\S+) replay=(\S+)", ln)
        if not m:
            out.append(ln); continue
        p, path = m.group(1), m.group(2)
        body = ""
        try: body = open(path).read()
        except OSError: pass
        hit = None
        for f in kf:
            if f["property"] == p and re.search(f["match"], body):
                hit = f; break
        if hit:
            nknown += 1
            out.append("KNOWN-FINDING: property=%s %s" % (p, hit["what"]))
        else:
            nviol += 1
            out.append(ln)
    return out, nviol, nknown


def product_stage(prop, name, module, base_cfg, overrides, replayer="replay_parser", timeout=7200,
                  heap="8g", workers=None, extra_replayer_args="", memprop=None, build_cfg="asan"):
    """TLC explores `module` under base_cfg+overrides with EmitOn=TRUE; every behaviour it prints is
    executed by `replayer` (ASan+UBSan build of the current tree)."""
    t0 = time.time()
    bdir = vlib.build(build_cfg, [replayer])
    odir = os.path.join(OUT, prop, name)
    shutil.rmtree(odir, ignore_errors=True)
    os.makedirs(odir)
    cfg = os.path.join(SPEC, "_%s_%s_%d.cfg" % (prop, name, os.getpid()))
    ov = dict(overrides); ov["EmitOn"] = "TRUE"
    vlib.mk_cfg(cfg, os.path.join(SPEC, base_cfg), ov)
    meta = tempfile.mkdtemp(prefix="tlc-", dir=odir)
    tlc = vlib.tlc_cmd(module, os.path.basename(cfg), workers=workers, metadir=meta, heap=os.environ.get("VERIF_HEAP", heap))
    rp = ("%s/%s --prop %s --memprop %s --outdir %s --tlclog %s/tlc.log --summary %s/sum.json --samples %s/samples.txt %s"
          % (bdir, replayer, prop, memprop or MEMPROP.get(replayer, "C01"), odir, odir, odir, odir, extra_replayer_args))
    cmd = "cd %s && timeout %d %s 2>&1 | %s 2>%s/replayer.err" % (SPEC, timeout, tlc, rp, odir)
    r = subprocess.run(cmd, shell=True, capture_output=True, text=True, env=_env())
    shutil.rmtree(meta, ignore_errors=True)
    try: os.remove(cfg)
    except OSError: pass
    tl = vlib.parse_tlc_log(open(os.path.join(odir, "tlc.log")).read() if os.path.exists(os.path.join(odir, "tlc.log")) else "")
    summ = vlib.read_json(os.path.join(odir, "sum.json"))
    if summ is None:
        raise Infra("replayer produced no summary (%s): %s" % (name, open(os.path.join(odir, "replayer.err")).read()[-1500:]))
    lines, nviol, nknown = _filter_known(prop, r.stdout.splitlines())
    for ln in lines:
        print(ln)
    samples = []
    sp = os.path.join(odir, "samples.txt")
    if os.path.exists(sp):
        samples = [l.strip() for l in open(sp)][:8]
    res = {"stage": name, "kind": "spec->code replay", "module": module, "constants": overrides,
           "states": tl["distinct"], "transitions": tl["states"], "depth": tl["depth"],
           "behaviours_replayed": summ["behaviours"], "calls": summ["calls"],
           "expected_fields_compared": summ["expected_fields_compared"], "reuse_probes": summ.get("reuse_probes", 0),
           "violations": nviol, "known": nknown, "other_property_notes": summ["violations_other"],
           "drift": {"ret": summ["drift_ret"], "used": summ["drift_used"], "obs": summ.get("drift_obs", 0), "abandoned": summ["abandoned_by_drift"]},
           "crashes": summ["crashes"], "hangs": summ["hangs"], "samples": samples, "wall_s": round(time.time() - t0, 1)}
    if tl["violated"]:
        res["model_invariant_violated"] = tl["violated"]
        if nviol + nknown == 0:
            raise Infra("MODEL-ERROR: TLC reports %s violated in %s but the real library conforms to Layer A on every "
                        "behaviour replayed: Layer I misrepresents the code (see %s/tlc.log)" % (tl["violated"], module, odir))
    elif not tl["ok"]:
        raise Infra("TLC did not complete (%s): %s" % (name, tl["error"]))
    if summ["behaviours"] == 0:
        raise Infra("vacuous: no behaviour was replayed in stage %s" % name)
    return res


def finish(prop, tier, stages, t0, assumptions, level="model_checking", extra_cov=None):
    viol = sum(s.get("violations", 0) for s in stages)
    samples = []
    for s in stages:
        samples += s.get("samples", [])[:4]
    drift = any((s.get("drift") or {}).get(k, 0) for s in stages for k in ("ret", "used", "obs", "abandoned"))
    cov = {"states": max(1, sum(s.get("states", 0) for s in stages)),
           "transitions": max(1, sum(s.get("transitions", 0) for s in stages)),
           "traces_validated_against_impl": sum(s.get("behaviours_replayed", 0) + s.get("traces_validated", 0) for s in stages),
           "samples": samples or ["(none)"],
           "exhaustive": all(s.get("exhaustive", True) for s in stages),
           "binding_layer_I": "drift observed (internal projections differ; model-level result does not transfer)" if drift else "intact",
           "stages": [{k: v for k, v in s.items() if k != "samples"} for s in stages]}
    if extra_cov: cov.update(extra_cov)
    vlib.write_evidence(prop, tier, level, cov, assumptions, time.time() - t0, viol)
    vlib.clean_old_builds()
    return 1 if viol else 0


def replay_file(prop, path, replayer="replay_parser"):
    """re-executes one reported behaviour / re-validates one reported trace.  The kind of file decides the engine (a
    check may contain stages of several engines): BEH / WBEH / TBEH / CBEH lines are replayed on the real library
    built from the current tree, .ndjson traces are validated by the trace specification they came from."""
    try:
        head = open(path, errors="replace").readline()
    except OSError as e:
        raise Infra("cannot read %s: %s" % (path, e))
    if path.endswith(".ndjson"):
        odir = os.path.join(OUT, prop, "replay"); os.makedirs(odir, exist_ok=True)
        mod = ("TraceWriter" if '"calls"' in head else "TraceToString" if '"runs"' in head else "TraceClass" if '"out"' in head else
               "CallGraphTrace" if '"kind"' in head else "TraceParser")
        if mod == "CallGraphTrace":
            return REGISTRY["C17"]("C17", "quick", None)        # observed call stacks are re-recorded from the current tree
        viol, summ, tl = validate_trace(prop, mod + ".tla", mod + ".cfg", os.path.abspath(path), odir)
        for p, line, what in viol:
            print("VIOLATION property=%s replay=%s" % (p, path)); print("  detail: trace %s: %s" % (line, what))
        return 1 if viol else 0
    for pre, rp in (("WBEH", "replay_writer"), ("TBEH", "replay_tostring"), ("CBEH", "replay_class"), ("BEH", "replay_parser")):
        if head.startswith(pre):
            replayer = rp; break
    cfgname = "asan-noprint" if "noprint-build" in path else "asan-noub" if "lookups-anywhere" in path else "asan"
    bdir = vlib.build(cfgname, [replayer])
    odir = os.path.join(OUT, prop, "replay"); os.makedirs(odir, exist_ok=True)
    r = subprocess.run("%s/%s --prop %s --memprop %s --outdir %s --replay %s" % (bdir, replayer, prop, MEMPROP.get(replayer, "C01"), odir, path),
                       shell=True, env=_env())
    return 1 if r.returncode == 1 else (0 if r.returncode == 0 else 2)


def validate_trace(prop, module, cfg, trace, odir, timeout=1500):
    """TLC validates an ndjson trace recorded from the real library (code -> spec)."""
    meta = tempfile.mkdtemp(prefix="tlc-", dir=odir)
    e = dict(os.environ); e["TRACE"] = trace
    cmd = "cd %s && timeout %d %s" % (SPEC, timeout, vlib.tlc_cmd(module, cfg, workers=1, metadir=meta, heap="12g"))
    r = subprocess.run(cmd, shell=True, capture_output=True, text=True, env=e)
    shutil.rmtree(meta, ignore_errors=True)
    open(os.path.join(odir, "tlc-trace.log"), "w").write(r.stdout[-200000:])
    viol = re.findall(r'"TRACE-VIOLATION ([C\d,]+|[A-Z]+): (line \d+): ([^"]*)"', r.stdout)
    m = re.search(r'<<"TRACE-SUMMARY", (\d+), (\d+), (\d+)>>', r.stdout)
    tl = vlib.parse_tlc_log(r.stdout)
    accepted = tl["ok"] and "Postcondition" not in r.stdout
    if not viol and not accepted:
        raise Infra("trace validation did not complete (%s): %s" % (module, (tl["error"] or r.stdout[-600:])))
    return viol, (tuple(int(x) for x in m.groups()) if m else (0, 0, 0)), tl


def trace_stage(prop, name, recorder, rec_args, module, cfg, memprop="C01"):
    t0 = time.time()
    bdir = vlib.build("asan", [recorder])
    odir = os.path.join(OUT, prop, name); shutil.rmtree(odir, ignore_errors=True); os.makedirs(odir)
    trace = os.path.join(odir, "trace.ndjson")
    cmdline = "%s/%s --seed %d %s --out %s" % (bdir, recorder, vlib.SEED, rec_args, trace)
    r = subprocess.run("timeout 600 " + cmdline, shell=True, capture_output=True, text=True, env=_env())
    nviol = 0; notes = 0
    if r.returncode != 0:
        # the recorder died while driving the library: sanitizer report / signal / watchdog
        vf = os.path.join(odir, "viol-recorder.txt")
        open(vf, "w").write("# property=%s\n# recorder died (exit %d) while driving the real library\n%s\n%s\n" % (memprop, r.returncode, cmdline, r.stderr[-3000:]))
        if r.returncode in (44, 124):
            memprop = "C16"          # watchdog: a call did not return
        if memprop == prop:
            print("VIOLATION property=%s replay=%s" % (memprop, vf)); nviol += 1
        else:
            print("NOTE other-property violation property=%s replay=%s (not counted by the %s check)" % (memprop, vf, prop)); notes += 1
        print("  detail: the recorder died while driving the library: " + (r.stderr.strip().splitlines() or ["?"])[0][:300])
        return {"stage": name, "kind": "code->spec trace validation", "violations": nviol, "traces_validated": 0, "events": 0,
                "other_property_notes": notes, "samples": [], "wall_s": round(time.time() - t0, 1), "exhaustive": False}
    viol, summ, tl = validate_trace(prop, module, cfg, trace, odir)
    seen = set()
    for p, line, what in viol[:40]:
        if (p, what) in seen and len(seen) > 6:
            continue
        seen.add((p, what))
        ln = int(line.split()[1])
        own = prop in p.split(",")
        if own: p = prop
        vf = os.path.join(odir, "viol-%s-%d.ndjson" % (p.replace(",", "-"), ln))
        # replay file: the events up to and including the offending line (from the last init on)
        with open(trace) as f: L = f.readlines()
        start = max((i for i in range(ln) if L[i].startswith('{"e":"I"')), default=0)
        open(vf, "w").writelines(L[start:ln])
        if p == prop:
            print("VIOLATION property=%s replay=%s" % (p, vf)); nviol += 1
        else:
            print("NOTE other-property violation property=%s replay=%s (not counted by the %s check)" % (p, vf, prop)); notes += 1
        print("  detail: trace %s: %s" % (line, what))
    with open(trace) as f:
        first = [f.readline()[:300] for _ in range(3)]
    res = {"stage": name, "kind": "code->spec trace validation", "module": module, "recorder": recorder + " " + rec_args,
           "states": tl["distinct"], "transitions": tl["states"], "events": summ[0], "documents_wellformed": summ[1], "documents_malformed": summ[2],
           "traces_validated": summ[1] + summ[2], "violations": nviol, "other_property_notes": notes, "samples": first[1:2],
           "wall_s": round(time.time() - t0, 1), "exhaustive": False}
    if os.path.getsize(trace) > 5_000_000 and nviol == 0:
        os.remove(trace)
    return res


def model_stage(prop, name, module, base_cfg, overrides, timeout=1500, heap="12g"):
    """model-level only (no behaviours to replay): e.g. liveness of the micro-step loop model"""
    t0 = time.time()
    odir = os.path.join(OUT, prop, name); shutil.rmtree(odir, ignore_errors=True); os.makedirs(odir)
    cfg = os.path.join(SPEC, "_%s_%s_%d.cfg" % (prop, name, os.getpid()))
    vlib.mk_cfg(cfg, os.path.join(SPEC, base_cfg), overrides)
    meta = tempfile.mkdtemp(prefix="tlc-", dir=odir)
    r = subprocess.run("cd %s && timeout %d %s" % (SPEC, timeout, vlib.tlc_cmd(module, os.path.basename(cfg), metadir=meta, heap=heap)),
                       shell=True, capture_output=True, text=True)
    shutil.rmtree(meta, ignore_errors=True); os.remove(cfg)
    open(os.path.join(odir, "tlc.log"), "w").write(r.stdout[-100000:])
    tl = vlib.parse_tlc_log(r.stdout)
    if tl["violated"]:
        raise Infra("MODEL-LEVEL VIOLATION in %s (%s): Layer I breaks a property at model level; replay the counterexample in %s/tlc.log on the code "
                    "to decide between a defect and a model error" % (module, tl["violated"], odir))
    if not tl["ok"]:
        raise Infra("TLC did not complete (%s): %s" % (name, tl["error"]))
    return {"stage": name, "kind": "model-level (TLC only)", "module": module, "constants": overrides, "states": tl["distinct"],
            "transitions": tl["states"], "depth": tl["depth"], "violations": 0, "samples": [], "wall_s": round(time.time() - t0, 1),
            "temporal_properties_checked": "Terminates, Progress" if "Micro" in module else ""}


def apalache_stage(prop, name, module):
    """unbounded model-level obligation: IndInv of `module` is inductive (Init => IndInv; IndInv /\\ Next => IndInv')"""
    t0 = time.time()
    odir = os.path.join(OUT, prop, name); shutil.rmtree(odir, ignore_errors=True); os.makedirs(odir)
    shutil.copy(os.path.join(SPEC, module + ".tla"), odir)
    done = 0; logs = []
    for init, length in (("Init", 0), ("IndInit", 1)):
        r = subprocess.run("cd %s && timeout 900 apalache-mc check --init=%s --cinit=CInit --inv=IndInv --length=%d --out-dir=%s/_ap %s.tla"
                           % (odir, init, length, odir, module), shell=True, capture_output=True, text=True)
        logs.append(r.stdout[-3000:])
        if "The outcome is: NoError" in r.stdout: done += 1
        elif "The outcome is: Error" in r.stdout:
            open(os.path.join(odir, "apalache.log"), "w").write("\n".join(logs))
            raise Infra("MODEL-LEVEL VIOLATION: the inductive invariant of %s fails (obligation %s): see %s/apalache.log" % (module, init, odir))
        else:
            open(os.path.join(odir, "apalache.log"), "w").write("\n".join(logs))
            raise Infra("Apalache did not complete on %s: %s" % (module, r.stdout[-400:]))
    shutil.rmtree(os.path.join(odir, "_ap"), ignore_errors=True)
    return {"stage": name, "kind": "inductive invariant over unbounded lengths and capacities (Apalache, model level)", "module": module + ".tla",
            "obligations": 2, "discharged": done, "states": 0, "transitions": 0, "violations": 0, "samples": [], "wall_s": round(time.time() - t0, 1)}


ASSUME_COMMON = [
    "Layer I (spec/ParserImpl.tla etc.) is a faithful transcription of the C control flow; bound to the code by replaying every generated transition and comparing buffer_used (drift is reported, not hidden)",
    "ASan/UBSan (gcc 12) observe memory errors on the executions performed; exact-size heap blocks for document, parser struct and state array",
    "TLC 1.8.0 explores the bounded model exhaustively (fingerprint collision probability as printed by TLC)",
]

# ------------------------------------------------- MC_Nav based checks -------
# stage name -> constants of MC_Nav.  Every stage explores ALL documents the builder can
# produce within the bound and the complete graph of the enabled calls.
def _nav(MaxNodes, MaxNest, Vals, DocNames, LookNames, Ops, Roots, ParserMaxD=4, HistK=0, NavScope="C06"):
    return dict(MaxNodes=MaxNodes, MaxNest=MaxNest, Vals=Vals, DocNames=DocNames, LookNames=LookNames,
                Ops=Ops, Roots=Roots, ParserMaxD=ParserMaxD, HistK=HistK, NavScope='"%s"' % NavScope)

def _ts(MaxNodes, MaxNest, Vals, DocNames, AllCaps, WithInvalid="TRUE", Roots="RootsOA", Pres="Pres0"):
    return dict(MaxNodes=MaxNodes, MaxNest=MaxNest, Vals=Vals, DocNames=DocNames, Roots=Roots, AllCaps=AllCaps, WithInvalid=WithInvalid, Pres=Pres)

NAV_STAGES = {
    "C06": {"quick":    [("nav", _nav(4, 3, "ValsInt1", "NamesAB", "LookAB", "OpsNavE", "RootsOA")),
                         ("nav-history-2", _nav(3, 3, "ValsInt1", "NamesAB", "LookAB", "OpsNav", "RootsOA", HistK=2)),
                         ("nav-deep-nesting", _nav(6, 5, "ValsInt1", "NamesA", "LookAB", "OpsNav", "RootsO", 5)),
                         ("nav-tight-depth", _nav(4, 3, "ValsInt1", "NamesAB", "LookAB", "OpsNavE", "RootsOA", 2)),
                         ("nav-names", _nav(3, 3, "ValsInt1", "NamesRich", "LookAB", "OpsNav", "RootsOA"))],
            "thorough": [("nav", _nav(5, 4, "ValsInt1", "NamesAB", "LookAB", "OpsNavE", "RootsOA")),
                         ("nav-deep-nesting", _nav(7, 6, "ValsInt1", "NamesA", "LookAB", "OpsNav", "RootsOA", 6)),
                         ("nav-tight-depth-1", _nav(5, 4, "ValsInt1", "NamesAB", "LookAB", "OpsNavE", "RootsOA", 1)),
                         ("nav-tight-depth-2", _nav(5, 4, "ValsInt1", "NamesAB", "LookAB", "OpsNavE", "RootsOA", 2)),
                         ("nav-names", _nav(4, 3, "ValsInt1", "NamesRich", "LookAB", "OpsNav", "RootsOA")),
                         ("nav-history-2", _nav(4, 3, "ValsInt1", "NamesAB", "LookAB", "OpsNav", "RootsOA", HistK=2)),
                         ("nav-mixed-values", _nav(4, 3, "ValsMix", "NamesAB", "LookAB", "OpsNavE", "RootsOA"))]},
    "C03": {"quick":    [("values-names", _nav(2, 2, "ValsAll", "NamesRich", "LookAB", "OpsNav", "RootsOA")),
                         ("full-traversals", _nav(5, 3, "ValsInt1", "NamesE", "LookAB", "OpsFull", "RootsOA", NavScope="C03,C06")),
                         ("reused-parser", _nav(3, 3, "ValsInt1", "NamesAB", "LookAB", "OpsReuse", "RootsOA")),
                         ("values-3", _nav(3, 2, "ValsAll", "NamesAB", "LookAB", "OpsWalk", "RootsOA"))],
            "thorough": [("values-names", _nav(2, 3, "ValsAll", "NamesRich", "LookAB", "OpsNav", "RootsOA")),
                         ("full-traversals", _nav(6, 4, "ValsInt1", "NamesE", "LookAB", "OpsFull", "RootsOA", NavScope="C03,C06")),
                         ("full-traversals-values", _nav(3, 3, "ValsMix", "NamesRich", "LookAB", "OpsFull", "RootsOA", NavScope="C03,C06")),
                         ("values-nest", _nav(3, 3, "ValsAll", "NamesAB", "LookAB", "OpsWalk", "RootsOA"))]},
    "C07": {"quick":    [("lookup-structure", _nav(4, 3, "ValsInt1", "NamesAB", "LookAB", "OpsLook", "RootsOA")),
                         ("lookup-names", _nav(3, 2, "ValsInt1", "NamesRich", "LookRich", "OpsLook", "RootsO")),
                         ("lookup-long-names", _nav(3, 2, "ValsInt1", "NamesLong", "LookLong", "OpsLook", "RootsO", HistK=1)),
                         ("lookup-history-1", _nav(3, 3, "ValsInt1", "NamesAB", "LookAB", "OpsLook", "RootsOA", HistK=1))],
            "thorough": [("lookup-structure", _nav(5, 3, "ValsInt1", "NamesAB", "LookAB", "OpsLook", "RootsOA")),
                         ("lookup-names", _nav(3, 3, "ValsMix", "NamesRich", "LookRich", "OpsLook", "RootsO")),
                         ("lookup-long-names", _nav(4, 3, "ValsInt1", "NamesLong", "LookLong", "OpsLook", "RootsO")),
                         ("lookup-history-2", _nav(3, 3, "ValsInt1", "NamesAB", "LookSmall", "OpsLook", "RootsOA", HistK=2)),
                         ("lookup-raw", _nav(4, 3, "ValsInt1", "NamesAB", "LookAB", "OpsAll", "RootsOA"))]},
    "C10": {"quick":    [("transcribe-structure", _nav(5, 4, "ValsInt1", "NamesAB", "LookAB", "OpsTrans", "RootsOA", 10)),
                         ("transcribe-values", _nav(2, 3, "ValsAll", "NamesRich", "LookAB", "OpsTrans", "RootsOA", 10)),
                         ("transcribe-mixed", _nav(4, 3, "ValsMix", "NamesAB", "LookAB", "OpsTrans", "RootsOA", 10)),
                         ("transcribe-reused-parser", _nav(4, 3, "ValsInt1", "NamesAB", "LookAB", "OpsReuseX", "RootsOA"))],
            "thorough": [("transcribe-structure", _nav(6, 4, "ValsInt1", "NamesAB", "LookAB", "OpsTrans", "RootsOA", 10)),
                         ("transcribe-values", _nav(3, 3, "ValsAll", "NamesRich", "LookAB", "OpsTrans", "RootsOA", 10)),
                         ("transcribe-reused-parser", _nav(5, 3, "ValsInt1", "NamesAB", "LookAB", "OpsReuseX", "RootsOA"))]},
    "C11": {"quick":    [("raw", _nav(4, 3, "ValsInt1", "NamesAB", "LookAB", "OpsNav", "RootsOA")),
                         ("raw-history-2", _nav(3, 3, "ValsInt1", "NamesAB", "LookAB", "OpsNav", "RootsOA", HistK=2)),
                         ("raw-deep-nesting", _nav(6, 5, "ValsInt1", "NamesA", "LookAB", "OpsNav", "RootsO", 5)),
                         ("raw-tight-depth", _nav(4, 3, "ValsInt1", "NamesAB", "LookAB", "OpsNav", "RootsOA", 2))],
            "thorough": [("raw", _nav(5, 4, "ValsInt1", "NamesAB", "LookAB", "OpsNav", "RootsOA")),
                         ("raw-deep-nesting", _nav(7, 6, "ValsInt1", "NamesA", "LookAB", "OpsNav", "RootsOA", 6)),
                         ("raw-tight-depth-1", _nav(5, 4, "ValsInt1", "NamesAB", "LookAB", "OpsNav", "RootsOA", 1)),
                         ("raw-tight-depth-2", _nav(5, 4, "ValsInt1", "NamesAB", "LookAB", "OpsNav", "RootsOA", 2)),
                         ("raw-tight-depth-3", _nav(5, 4, "ValsInt1", "NamesAB", "LookAB", "OpsNav", "RootsOA", 3)),
                         ("raw-history-2", _nav(4, 3, "ValsInt1", "NamesAB", "LookAB", "OpsNav", "RootsOA", HistK=2)),
                         ("raw-lookup", _nav(4, 3, "ValsMix", "NamesAB", "LookAB", "OpsAll", "RootsOA"))]},
}


PTRACE = {  # recorded executions of the real parser validated by spec/TraceParser.tla
    "quick":    {"valid": "--mode valid --docs 300 --big", "mutate": "--mode mutate --docs 600", "hostile": "--mode hostile --docs 600", "mixed": "--mode mixed --docs 600 --big"},
    "thorough": {"valid": "--mode valid --docs 6000 --big", "mutate": "--mode mutate --docs 8000 --big", "hostile": "--mode hostile --docs 8000 --big", "mixed": "--mode mixed --docs 8000 --big"},
}
PTRACE_FLAVOUR = {"C01": "hostile", "C02": "mixed", "C03": "valid", "C06": "valid", "C07": "valid", "C08": "mutate", "C09": "hostile",
                  "C10": "valid", "C11": "valid", "C12": "mixed", "C16": "hostile"}


def corpus_stage(prop, tier, which):
    """the repository's own corpus (utest/test_data): init + verify (+ full traversal of the valid ones) on the
    real library, validated by TLC against Layer A.  quick: a seeded slice, thorough: every file."""
    d = os.path.join(vlib.REPO, "utest", "test_data", which)
    n = {"quick": {"bad_objects": 220, "valid_objects": 50}, "thorough": {"bad_objects": 0, "valid_objects": 0}}[tier][which]
    return trace_stage(prop, "corpus-" + which, "record_parser", "--corpus %s --docs %d" % (d, n), "TraceParser.tla", "TraceParser.cfg")


def parser_trace_stage(prop, tier):
    fl = PTRACE_FLAVOUR[prop]
    return trace_stage(prop, "recorded-" + fl, "record_parser", PTRACE[tier][fl], "TraceParser.tla", "TraceParser.cfg")


def check_nav(prop, tier, replay):
    if replay:
        return replay_file(prop, replay)
    t0 = time.time()
    stages = [product_stage(prop, name, "MC_Nav.tla", "MC_Nav.cfg", consts) for name, consts in NAV_STAGES[prop][tier]]
    stages.append(parser_trace_stage(prop, tier))
    if prop in ("C03", "C10"):
        stages.append(corpus_stage(prop, tier, "valid_objects"))      # the 220 valid documents shipped with the repository
    if prop == "C10":
        # decode-then-encode through the C++ class (deserialize overloads on a used object, then serialize)
        stages.append(product_stage(prop, "class-decode-encode", "MC_Class.tla", "MC_Class.cfg", dict(K=2 if tier == "quick" else 3, Sigma="SigmaC", Families="TRUE"), replayer="replay_class"))
    return finish(prop, tier, stages, t0, ASSUME_COMMON)


for _p in NAV_STAGES:
    REGISTRY[_p] = check_nav


# ---------------------------------------------------------------- C08 -------
STREAM_STAGES = {
    "quick":    [("stream-k3", dict(K=3, MaxD=2, Sigma="SigmaS", Names="NamesS", Roots="RootsOA", HistK=0)),
                 ("stream-k2-history-2", dict(K=2, MaxD=2, Sigma="SigmaS", Names="NamesS", Roots="RootsOA", HistK=2)),
                 ("stream-k4-name-order", dict(K=4, MaxD=2, Sigma="SigmaT", Names="NamesS", Roots="RootsO", HistK=1)),
                 ("stream-k2-large-alphabet", dict(K=2, MaxD=1, Sigma="SigmaL", Names="NamesS", Roots="RootsOA", HistK=0)),
                 ("stream-deep-stems", dict(K=3, MaxD=3, Sigma="SigmaD", Names="NamesS", Roots="RootsNone", HistK=0, Stems="DeepStems"))],
    "thorough": [("stream-k4", dict(K=4, MaxD=2, Sigma="SigmaS", Names="NamesS", Roots="RootsOA", HistK=0)),
                 ("stream-k3-history-2", dict(K=3, MaxD=2, Sigma="SigmaS", Names="NamesS", Roots="RootsOA", HistK=2)),
                 ("stream-k5-name-order", dict(K=5, MaxD=2, Sigma="SigmaT", Names="NamesS", Roots="RootsO", HistK=1)),
                 ("stream-k3-large-alphabet", dict(K=3, MaxD=3, Sigma="SigmaL", Names="NamesS", Roots="RootsOA", HistK=0)),
                 ("stream-deep-stems", dict(K=4, MaxD=4, Sigma="SigmaD", Names="NamesS", Roots="RootsNone", HistK=0, Stems="DeepStems"))],
}


def check_stream(prop, tier, replay):
    if replay:
        return replay_file(prop, replay)
    t0 = time.time()
    stages = [product_stage(prop, name, "MC_Stream.tla", "MC_Stream.cfg", c) for name, c in STREAM_STAGES[tier]]
    stages.append(parser_trace_stage(prop, tier))
    return finish(prop, tier, stages, t0, ASSUME_COMMON)


REGISTRY["C08"] = check_stream


# ------------------------------------------------ MC_Safety based checks -------
def _saf(K, MaxCalls, MaxDs, Sigma, Fills, Names="NamesH", LookupsAnywhere="FALSE"):
    return dict(K=K, MaxCalls=MaxCalls, MaxDs=MaxDs, Sigma=Sigma, Names=Names, Fills=Fills, LookupsAnywhere=LookupsAnywhere)

SAFETY_STAGES = {
    "quick":    [("hostile-tokens", _saf(2, 3, "MaxDs12", "SigmaTok", "FillsQ")),
                 ("hostile-bytes", _saf(2, 2, "MaxDs12", "SigmaByte", "FillsQ")),
                 ("hostile-bytes-3", _saf(3, 1, "MaxDs2", "SigmaByte", "FillsTwo"))],
    "thorough": [("hostile-tokens", _saf(2, 3, "MaxDs123", "SigmaTok", "FillsAll")),
                 ("hostile-tokens-3", _saf(3, 2, "MaxDs12", "SigmaTok", "FillsQ")),
                 ("hostile-bytes", _saf(3, 2, "MaxDs12", "SigmaByte", "FillsQ")),
                 ("hostile-deep", _saf(1, 5, "MaxDs12", "SigmaTok", "FillsQ"))],
}
WRITER_Q = dict(K=2, Alpha="AlphaQ", WithReset="TRUE", AllCaps="TRUE")
WRITER_T = dict(K=3, Alpha="AlphaQ", WithReset="TRUE", AllCaps="FALSE")    # K=3 x every capacity x reset does not finish in hours; every capacity is covered at K=2
EXTRA_STAGES = {
    "C12": {"quick": [("reuse-nav", "MC_Nav.tla", "MC_Nav.cfg", _nav(4, 3, "ValsInt1", "NamesAB", "LookAB", "OpsReuse", "RootsOA")),
                      ("writer-reset", "MC_Writer.tla", "MC_Writer.cfg", WRITER_Q),
                      ("to_string-then-reuse", "MC_ToString.tla", "MC_ToString.cfg", _ts(2, 3, "ValsText", "NamesAB", "FALSE", "TRUE", "RootsOA", "Pres012"))],
            "thorough": [("reuse-nav", "MC_Nav.tla", "MC_Nav.cfg", _nav(4, 3, "ValsMix", "NamesAB", "LookAB", "OpsReuse", "RootsOA")),
                         ("writer-reset", "MC_Writer.tla", "MC_Writer.cfg", WRITER_T),
                         ("to_string-then-reuse", "MC_ToString.tla", "MC_ToString.cfg", _ts(3, 3, "ValsText", "NamesAB", "FALSE", "TRUE", "RootsOA", "Pres012"))]},
    "C09": {"quick": [("writer-latch", "MC_Writer.tla", "MC_Writer.cfg", WRITER_Q),
                      ("to_string-invalid-documents", "MC_ToString.tla", "MC_ToString.cfg", _ts(2, 3, "ValsText", "NamesAB", "FALSE", "TRUE", "RootsOA", "Pres0")),
                      ("to-writer-latched", "MC_Nav.tla", "MC_Nav.cfg", _nav(3, 3, "ValsInt1", "NamesAB", "LookAB", "OpsNav", "RootsOA"))],
            "thorough": [("writer-latch", "MC_Writer.tla", "MC_Writer.cfg", WRITER_T),
                         ("to_string-invalid-documents", "MC_ToString.tla", "MC_ToString.cfg", _ts(3, 3, "ValsText", "NamesAB", "TRUE", "TRUE", "RootsOA", "Pres0")),
                         ("to-writer-latched", "MC_Nav.tla", "MC_Nav.cfg", _nav(5, 3, "ValsInt1", "NamesAB", "LookAB", "OpsNav", "RootsOA"))]},
    "C16": {"quick": [("class-wrapper-family-documents", "MC_Class.tla", "MC_Class.cfg", dict(K=1, Sigma="SigmaC", Families="TRUE")),
                      ("hostile-lookups-anywhere", "MC_Safety.tla", "MC_Safety.cfg", _saf(2, 3, "MaxDs12", "SigmaTok", "FillsTwo", LookupsAnywhere="TRUE"))],
            "thorough": [("class-wrapper-k3", "MC_Class.tla", "MC_Class.cfg", dict(K=3, Sigma="SigmaC", Families="TRUE")),
                         ("hostile-lookups-anywhere", "MC_Safety.tla", "MC_Safety.cfg", _saf(3, 2, "MaxDs12", "SigmaTok", "FillsTwo", LookupsAnywhere="TRUE"))]},
    "C01": {"quick": [("nesting-limits", "MC_Verify.tla", "MC_Verify.cfg", dict(K=0, MaxDs="MaxDsDeep", Sigma="SigmaMid", Deep="TRUE")),
                      ("reuse-nav-values", "MC_Nav.tla", "MC_Nav.cfg", _nav(3, 3, "ValsMix", "NamesAB", "LookAB", "OpsReuse", "RootsOA")),
                      ("to_string-then-reuse", "MC_ToString.tla", "MC_ToString.cfg", _ts(2, 3, "ValsText", "NamesAB", "FALSE", "TRUE", "RootsOA", "Pres012"))],
            "thorough": [("nesting-limits", "MC_Verify.tla", "MC_Verify.cfg", dict(K=0, MaxDs="MaxDsDeep", Sigma="SigmaMid", Deep="TRUE")),
                         ("reuse-nav-values", "MC_Nav.tla", "MC_Nav.cfg", _nav(4, 3, "ValsMix", "NamesAB", "LookAB", "OpsReuse", "RootsOA")),
                         ("to_string-then-reuse", "MC_ToString.tla", "MC_ToString.cfg", _ts(3, 3, "ValsText", "NamesAB", "FALSE", "TRUE", "RootsOA", "Pres012"))]},
}


def check_safety(prop, tier, replay):
    if replay:
        return replay_file(prop, replay)
    t0 = time.time()
    stages = [product_stage(prop, name, "MC_Safety.tla", "MC_Safety.cfg", c) for name, c in SAFETY_STAGES[tier]]
    if prop == "C01":
        # the same behaviours on the library built WITHOUT the print option (its other configuration)
        name, c = SAFETY_STAGES[tier][0]
        stages.append(product_stage(prop, name + "-noprint-build", "MC_Safety.tla", "MC_Safety.cfg", c, build_cfg="asan-noprint"))
    for name, mod, cfg, c in EXTRA_STAGES.get(prop, {}).get(tier, []):
        stages.append(product_stage(prop, name, mod, cfg, c, replayer={"MC_Writer.tla": "replay_writer", "MC_ToString.tla": "replay_tostring", "MC_Class.tla": "replay_class"}.get(mod, "replay_parser"),
                                    memprop=prop if mod == "MC_ToString.tla" else None,
                                    build_cfg="asan-noub" if name == "hostile-lookups-anywhere" else "asan"))
    stages.append(parser_trace_stage(prop, tier))
    if prop == "C01":
        stages.append(apalache_stage(prop, "unbounded-bounds-arithmetic", "ApParserCore"))
    if prop == "C16":
        stages.append(trace_stage(prop, "recorded-large-documents", "record_tostring", "--big --docs %d" % (150 if tier == "quick" else 3000),
                                  "TraceToString.tla", "TraceToString.cfg", memprop="C13"))
        stages.append(model_stage(prop, "loop-liveness", "MC_Micro.tla", "MC_Micro.cfg",
                                  dict(K=2, MaxD=2, MaxCalls=3, Sigma="SigmaM", Names="NamesM") if tier == "quick" else
                                  dict(K=3, MaxD=2, MaxCalls=3, Sigma="SigmaM", Names="NamesM")))
    return finish(prop, tier, stages, t0, ASSUME_COMMON)


for _p in ("C01", "C09", "C12", "C16"):
    REGISTRY[_p] = check_safety


# ---------------------------------------------------------------- C02 -------
VERIFY_STAGES = {
    "quick":    [("tokens-k2-full", dict(K=2, MaxDs="MaxDs123", Sigma="SigmaFull", Deep="FALSE")),
                 ("tokens-k3-full", dict(K=3, MaxDs="MaxDs2", Sigma="SigmaFull", Deep="FALSE")),
                 ("names-k4", dict(K=4, MaxDs="MaxDs2", Sigma="SigmaNames", Deep="FALSE")),
                 ("names-k5-tiny", dict(K=5, MaxDs="MaxDs2", Sigma="SigmaTiny", Deep="FALSE")),
                 ("nesting-limits", dict(K=0, MaxDs="MaxDsDeep", Sigma="SigmaMid", Deep="TRUE"))],
    "thorough": [("tokens-k3-full", dict(K=3, MaxDs="MaxDs123", Sigma="SigmaFull", Deep="FALSE")),
                 ("tokens-k2-wide", dict(K=2, MaxDs="MaxDs123", Sigma="SigmaWide", Deep="FALSE")),
                 ("tokens-k4-mid", dict(K=4, MaxDs="MaxDs2", Sigma="SigmaMid", Deep="FALSE")),
                 ("names-k5", dict(K=5, MaxDs="MaxDs2", Sigma="SigmaNames", Deep="FALSE")),
                 ("names-k6-tiny", dict(K=6, MaxDs="MaxDs2", Sigma="SigmaTiny", Deep="FALSE")),
                 ("nesting-limits", dict(K=0, MaxDs="MaxDsDeep", Sigma="SigmaMid", Deep="TRUE"))],
}


def check_verify(prop, tier, replay):
    if replay:
        return replay_file(prop, replay)
    t0 = time.time()
    stages = [product_stage(prop, name, "MC_Verify.tla", "MC_Verify.cfg", c) for name, c in VERIFY_STAGES[tier]]
    stages.append(parser_trace_stage(prop, tier))
    stages.append(corpus_stage(prop, tier, "bad_objects"))
    stages.append(corpus_stage(prop, tier, "valid_objects"))
    return finish(prop, tier, stages, t0, ASSUME_COMMON)


REGISTRY["C02"] = check_verify


# ------------------------------------------------------------ C04 / C05 -------
WRITER_STAGES = {
    "C04": {"quick":    [("calls-k2", WRITER_Q)],
            "thorough": [("calls-k2", WRITER_Q), ("calls-k3-two-capacities", WRITER_T), ("calls-k2-ints", dict(K=2, Alpha="AlphaInts", WithReset="FALSE", AllCaps="TRUE"))]},
    "C05": {"quick":    [("calls-k3", dict(K=3, Alpha="AlphaQ", WithReset="FALSE", AllCaps="FALSE")),
                         ("calls-k3-ints", dict(K=3, Alpha="AlphaInts", WithReset="FALSE", AllCaps="FALSE"))],
            "thorough": [("calls-k4", dict(K=4, Alpha="AlphaQ", WithReset="FALSE", AllCaps="FALSE")),
                         ("calls-k4-ints", dict(K=4, Alpha="AlphaInts", WithReset="FALSE", AllCaps="FALSE"))]},
}
WRITERDOC_STAGES = {
    "quick":    [("documents", dict(MaxNodes=5, MaxNest=3, ValCalls="ValsDoc1", DocNames="NamesEAB", AllCaps="FALSE")),
                 ("documents-long-names", dict(MaxNodes=3, MaxNest=2, ValCalls="ValsDoc1", DocNames="NamesLongW", AllCaps="FALSE"))],
    "thorough": [("documents", dict(MaxNodes=5, MaxNest=3, ValCalls="ValsDoc", DocNames="NamesEAB", AllCaps="FALSE")),
                 ("documents-nul-names", dict(MaxNodes=4, MaxNest=3, ValCalls="ValsDoc1", DocNames="NamesNul", AllCaps="FALSE")),
                 ("documents-long-names", dict(MaxNodes=4, MaxNest=3, ValCalls="ValsDoc", DocNames="NamesLongW", AllCaps="FALSE"))],
}
ASSUME_WRITER = [
    "Layer I (spec/WriterImpl.tla) transcribes binson_writer.c; bound to the code by comparing the exact number of bytes stored (drift reported)",
    "stored bytes are observed by running every behaviour over 0xAA and over 0x55 fill; ASan with an exact-size destination observes any byte beyond the capacity",
    "payload lengths in the TLC alphabet are 0,1,2,127,128; longer payloads are covered by recorded traces",
]


def check_writer(prop, tier, replay):
    if replay:
        return replay_file(prop, replay, "replay_writer")
    t0 = time.time()
    stages = [product_stage(prop, name, "MC_Writer.tla", "MC_Writer.cfg", c, replayer="replay_writer") for name, c in WRITER_STAGES[prop][tier]]
    if prop == "C05":
        # documents rather than flat call lists: nested objects/arrays, names ascending, the empty name included
        for name, c in WRITERDOC_STAGES[tier]:
            stages.append(product_stage(prop, name, "MC_WriterDoc.tla", "MC_WriterDoc.cfg", c, replayer="replay_writer"))
    stages.append(trace_stage(prop, "recorded-long-payloads", "record_writer", "--runs %d" % (400 if tier == "quick" else 6000),
                              "TraceWriter.tla", "TraceWriter.cfg", memprop="C04"))
    if prop == "C04":
        stages.append(apalache_stage(prop, "unbounded-lengths", "ApWriterCore"))
    return finish(prop, tier, stages, t0, ASSUME_WRITER)


REGISTRY["C04"] = check_writer
REGISTRY["C05"] = check_writer


# ------------------------------------------------------------ C13 / C14 -------
TOSTRING_STAGES = {
    "C13": {"quick":    [("caps-text", _ts(3, 3, "ValsText", "NamesAB", "TRUE")),
                         ("caps-wide", _ts(1, 2, "ValsWide", "NamesOdd", "TRUE")),
                         ("prior-state", _ts(3, 3, "ValsText", "NamesAB", "FALSE", "TRUE", "RootsOA", "Pres012"))],
            # the model stages of the thorough tier stay close to the quick bounds (one more node / level costs hours
            # here: every state evaluates the renderer for a whole document); the depth comes from 20x more recorded documents
            "thorough": [("caps-text", _ts(3, 3, "ValsText", "NamesAB", "TRUE")),
                         ("caps-wide", _ts(1, 3, "ValsWide", "NamesOdd", "TRUE")),
                         ("prior-state", _ts(3, 3, "ValsText", "NamesAB", "FALSE", "TRUE", "RootsOA", "Pres012"))]},
    "C14": {"quick":    [("siblings", _ts(5, 4, "ValsOne", "NamesAB", "FALSE", "FALSE")),
                         ("values", _ts(2, 2, "ValsWide", "NamesOdd", "FALSE", "FALSE")),
                         ("text", _ts(3, 3, "ValsText", "NamesAB", "FALSE", "FALSE")),
                         ("prior-state", _ts(2, 3, "ValsText", "NamesAB", "FALSE", "FALSE", "RootsOA", "Pres012"))],
            "thorough": [("siblings", _ts(5, 4, "ValsOne", "NamesAB", "FALSE", "FALSE")),
                         ("prior-state", _ts(3, 3, "ValsText", "NamesAB", "FALSE", "FALSE", "RootsOA", "Pres012")),
                         ("values", _ts(2, 3, "ValsWide", "NamesOdd", "FALSE", "FALSE")),
                         ("text", _ts(3, 3, "ValsText", "NamesAB", "FALSE", "FALSE"))]},
}
ASSUME_TS = [
    "Layer I (spec/ToStringImpl.tla) transcribes the two print callbacks incl. the snprintf/available bookkeeping; bound by comparing the stored high-water mark (drift reported)",
    "printf %f is an uninterpreted table (spec/FmtTable.tla) generated from the platform libc by a program that does not link the library; re-generated and compared at every run",
    "ASan with an exact-size text destination observes any byte stored at or beyond the capacity",
]


def fmt_table_guard():
    """the committed FmtTable.tla must be what this platform's libc prints"""
    os.makedirs(OUT, exist_ok=True)
    exe = os.path.join(OUT, "gen_fmttable.%d" % os.getpid())
    r = subprocess.run("gcc -O1 -o %s %s/gen_fmttable.c && %s" % (exe, vlib.HARNESS, exe), shell=True, capture_output=True, text=True)
    try: os.remove(exe)
    except OSError: pass
    if r.returncode != 0:
        raise Infra("gen_fmttable failed: " + r.stderr[-500:])
    if r.stdout != open(os.path.join(SPEC, "FmtTable.tla")).read():
        raise Infra("spec/FmtTable.tla differs from what this platform's snprintf(%f) produces; regenerate it with harness/gen_fmttable.c")


def check_tostring(prop, tier, replay):
    if replay:
        return replay_file(prop, replay, "replay_tostring")
    t0 = time.time()
    fmt_table_guard()
    stages = [product_stage(prop, name, "MC_ToString.tla", "MC_ToString.cfg", c, replayer="replay_tostring") for name, c in TOSTRING_STAGES[prop][tier]]
    stages.append(trace_stage(prop, "recorded-large-documents", "record_tostring", "--big --docs %d" % (150 if tier == "quick" else 3000),
                              "TraceToString.tla", "TraceToString.cfg", memprop="C13"))
    if prop == "C13":
        stages.append(apalache_stage(prop, "unbounded-token-lengths", "ApToStringCore"))
    return finish(prop, tier, stages, t0, ASSUME_TS)


REGISTRY["C13"] = check_tostring
REGISTRY["C14"] = check_tostring


# ---------------------------------------------------------------- C15 -------
CLASS_STAGES = {
    "quick":    [("bytes-k3", dict(K=3, Sigma="SigmaC", Families="TRUE"))],
    "thorough": [("bytes-k4", dict(K=4, Sigma="SigmaC", Families="TRUE"))],
}
ASSUME_CLASS = [
    "Layer I (spec/ClassImpl.tla) models binson.cpp as call scripts over ParserImpl/WriterImpl",
    "each batch of behaviours runs in a forked child under ASan/UBSan: a crash is an observation attributed to its behaviour",
    "std::map<std::string,...> order is the platform's std::string order (unsigned bytewise)",
]


def check_class(prop, tier, replay):
    if replay:
        return replay_file(prop, replay, "replay_class")
    t0 = time.time()
    stages = [product_stage(prop, name, "MC_Class.tla", "MC_Class.cfg", c, replayer="replay_class") for name, c in CLASS_STAGES[tier]]
    stages.append(trace_stage(prop, "recorded-documents", "record_class", "--docs %d" % (400 if tier == "quick" else 6000),
                              "TraceClass.tla", "TraceClass.cfg", memprop="C15"))
    return finish(prop, tier, stages, t0, ASSUME_CLASS)


REGISTRY["C15"] = check_class


# ---------------------------------------------------------------- C17 -------
CG_CONFIGS = [("gcc", "-O0", True), ("gcc", "-O2", True), ("gcc", "-Os", True),
              ("gcc", "-O0", False), ("gcc", "-O2", False), ("gcc", "-Os", False)]


def _max_stack(datafile):
    """deepest static stack over all call paths (python DFS over the extracted graph; TLC checks the bound)"""
    txt = open(datafile).read()
    funcs = set(re.findall(r'"([^"]+)"', re.search(r"Funcs == \{(.*?)\}", txt).group(1)))
    edges = re.findall(r'<<"([^"]+)", "([^"]+)">>', re.search(r"Edges == \{(.*)\}", txt).group(1))
    at = set(re.findall(r'"([^"]+)"', re.search(r"AddressTaken == \{(.*?)\}", txt).group(1)))
    stack = {k: int(v) for k, v in re.findall(r'f = "([^"]+)" -> (\d+)', re.search(r"Stack == (.*)", txt).group(1))}
    succ = {}
    for a, b in edges:
        for t in (at if b == "__indirect_call" else [b]):
            succ.setdefault(a, set()).add(t)
    best = (0, [])
    def dfs(f, path, tot):
        nonlocal best
        if f in path or len(path) > 60: return
        tot2 = tot + stack.get(f, 0); path2 = path + [f]
        if tot2 > best[0]: best = (tot2, path2)
        for g in succ.get(f, ()):
            if g in funcs: dfs(g, path2, tot2)
    for f in funcs: dfs(f, [], 0)
    return best


CG_DRIVERS = {
    "quick":    [("record_parser", "--mode mixed --docs 300"), ("record_parser", "--mode hostile --docs 300"), ("record_parser", "--mode valid --docs 150"),
                 ("record_writer", "--runs 200"), ("record_tostring", "--docs 60")],
    "thorough": [("record_parser", "--mode mixed --docs 4000 --big"), ("record_parser", "--mode hostile --docs 4000"), ("record_parser", "--mode valid --docs 2000 --big"),
                 ("record_parser", "--mode mutate --docs 4000"), ("record_writer", "--runs 3000"), ("record_tostring", "--docs 600 --big")],
}


def observed_stacks_stage(prop, tier, base, datafile):
    """code -> spec for C17: the recorders run in a build whose LIBRARY objects are compiled with
    -finstrument-functions; every distinct call stack that occurs (with the stack bytes measured for it) and the
    number of allocator calls made inside library calls are validated by TLC (spec/CallGraphTrace.tla) against the
    call-graph model extracted for gcc -O0."""
    t0 = time.time()
    d = os.path.join(base, "observed-call-stacks"); os.makedirs(d)
    inc = "-DBINSON_PARSER_WITH_PRINT -I%s/include -I%s" % (vlib.REPO, vlib.HARNESS)
    objs = []
    for src in vlib.LIB_C:
        o = os.path.join(d, os.path.basename(src) + ".o")
        r = subprocess.run("gcc -std=c99 -O0 -g %s -finstrument-functions -c %s/%s -o %s" % (inc, vlib.REPO, src, o), shell=True, capture_output=True, text=True)
        if r.returncode != 0:
            raise Infra("repository source %s does not compile (instrumented): %s" % (src, r.stderr[-1500:]))
        objs.append(o)
    r = subprocess.run("gcc -std=gnu99 -O0 -g -c %s/cg_hooks.c -o %s/cg_hooks.o" % (vlib.HARNESS, d), shell=True, capture_output=True, text=True)
    if r.returncode != 0:
        raise Infra("cg_hooks.c does not compile: " + r.stderr[-1500:])
    lines = []; notes = 0; calls = 0; allocs = 0; overflow = 0; nstacks = 0
    for k, (prog, args) in enumerate(CG_DRIVERS[tier]):
        exe = os.path.join(d, prog)
        if not os.path.exists(exe):
            r = subprocess.run("gcc -std=gnu99 -O0 -g -no-pie %s %s/%s.c %s %s/cg_hooks.o -Wl,--wrap=malloc,--wrap=calloc,--wrap=realloc,--wrap=free -o %s"
                               % (inc, vlib.HARNESS, prog, " ".join(objs), d, exe), shell=True, capture_output=True, text=True)
            if r.returncode != 0:
                raise Infra("recorder %s does not build against the current tree: %s" % (prog, r.stderr[-1500:]))
        sym = {}
        for ln in subprocess.run("nm %s" % exe, shell=True, capture_output=True, text=True).stdout.splitlines():
            f = ln.split()
            if len(f) == 3 and f[1] in "tT":
                sym[int(f[0], 16)] = f[2]
        cg = os.path.join(d, "obs-%d.cg" % k)
        e = dict(os.environ); e["VERIF_CG_OUT"] = cg
        r = subprocess.run("timeout 900 %s --seed %d %s --out /dev/null" % (exe, vlib.SEED, args), shell=True, capture_output=True, text=True, env=e)
        if r.returncode != 0 or not os.path.exists(cg):
            print("NOTE other-property violation property=C01 replay=%s (not counted by the %s check)" % (exe, prop))
            print("  detail: recorder '%s %s' died in the instrumented build (exit %d): %s" % (prog, args, r.returncode, r.stderr.strip()[-200:]))
            notes += 1
            continue
        for ln in open(cg):
            f = ln.split()
            if f[0] == "allocs":
                allocs += int(f[1]); calls += int(f[3]); overflow += int(f[7])
            else:
                names = [sym.get(int(a, 16), "?" + a) for a in f[3:]]
                lines.append(json.dumps({"kind": "stack", "stk": names, "bytes": int(f[1]), "hits": int(f[2]), "driver": prog}))
                nstacks += 1
    lines.append(json.dumps({"kind": "allocs", "n": allocs, "overflow": overflow, "stk": [], "bytes": 0}))
    trace = os.path.join(d, "trace.ndjson"); open(trace, "w").write("\n".join(lines) + "\n")
    shutil.copy(datafile, d); shutil.copy(os.path.join(SPEC, "CallGraphTrace.tla"), d); shutil.copy(os.path.join(SPEC, "CallGraphTrace.cfg"), d)
    e = dict(os.environ); e["TRACE"] = trace
    r = subprocess.run("cd %s && timeout 600 %s" % (d, vlib.tlc_cmd("CallGraphTrace.tla", "CallGraphTrace.cfg", workers=1, metadir=os.path.join(d, "meta"), heap="2g")),
                       shell=True, capture_output=True, text=True, env=e)
    shutil.rmtree(os.path.join(d, "meta"), ignore_errors=True)
    open(os.path.join(d, "tlc-trace.log"), "w").write(r.stdout[-100000:])
    viol = re.findall(r'"TRACE-VIOLATION C17: (line \d+): ([^"]*)"', r.stdout)
    m = re.search(r'<<"TRACE-SUMMARY", (\d+), (\d+), (\d+)>>', r.stdout)
    tl = vlib.parse_tlc_log(r.stdout)
    if not viol and not (tl["ok"] and "Postcondition" not in r.stdout):
        raise Infra("validation of the observed call stacks did not complete: %s" % (tl["error"] or r.stdout[-600:]))
    nviol = 0
    for line, what in viol[:10]:
        ln = int(line.split()[1])
        vf = os.path.join(d, "viol-C17-%d.ndjson" % ln)
        open(vf, "w").write(lines[ln - 1] + "\n")
        print("VIOLATION property=C17 replay=%s" % vf); nviol += 1
        print("  detail: observed execution: %s" % what)
    return {"stage": "observed-call-stacks", "kind": "code->spec trace validation", "module": "CallGraphTrace.tla",
            "recorder": "; ".join("%s %s" % x for x in CG_DRIVERS[tier]), "library_calls_observed": calls, "distinct_call_stacks": nstacks,
            "allocator_calls_inside_library": allocs, "edges_observed": int(m.group(2)) if m else 0, "edges_in_model": int(m.group(3)) if m else 0,
            "events": len(lines), "traces_validated": len(lines), "states": tl["distinct"], "transitions": tl["states"],
            "violations": nviol, "other_property_notes": notes, "samples": lines[:2], "wall_s": round(time.time() - t0, 1), "exhaustive": False}


def check_callgraph(prop, tier, replay):
    t0 = time.time()
    stages = []; nviol = 0
    base = os.path.join(OUT, prop); shutil.rmtree(base, ignore_errors=True); os.makedirs(base)
    for cc, opt, wprint in CG_CONFIGS:
        name = "%s%s%s" % (cc, opt, "-print" if wprint else "-noprint")
        d = os.path.join(base, name); os.makedirs(d)
        for src in vlib.LIB_C:
            b = os.path.basename(src)[:-2]
            r = subprocess.run("%s -std=c99 %s %s -I%s/include -fstack-usage -fcallgraph-info=su,da -fdump-ipa-cgraph -c %s/%s -o %s/%s.o"
                               % (cc, opt, "-DBINSON_PARSER_WITH_PRINT" if wprint else "", vlib.REPO, vlib.REPO, src, d, b),
                               shell=True, capture_output=True, text=True, cwd=d)
            if r.returncode != 0:
                raise Infra("repository source %s does not compile (%s): %s" % (src, name, r.stderr[-1500:]))
        r = subprocess.run("python3 %s/bin/ci2tla.py %s binson_parser binson_writer > %s/CallGraphData.tla" % (VERIF, d, d), shell=True, capture_output=True, text=True)
        if r.returncode != 0:
            raise Infra("extraction failed: " + r.stderr[-1500:])
        shutil.copy(os.path.join(SPEC, "CallGraph.tla"), d); shutil.copy(os.path.join(SPEC, "CallGraph.cfg"), d)
        cmd = "cd %s && timeout 300 %s > tlc.log 2>&1" % (d, vlib.tlc_cmd("CallGraph.tla", "CallGraph.cfg", workers=4, metadir=os.path.join(d, "meta"), heap="2g"))
        subprocess.run(cmd, shell=True)
        shutil.rmtree(os.path.join(d, "meta"), ignore_errors=True)
        log_txt = open(os.path.join(d, "tlc.log")).read()
        tl = vlib.parse_tlc_log(log_txt)
        mx = _max_stack(os.path.join(d, "CallGraphData.tla"))
        st = {"stage": name, "kind": "extracted call-graph model", "states": tl["distinct"], "transitions": tl["states"], "depth": tl["depth"],
              "max_static_stack_bytes": mx[0], "deepest_path": mx[1], "violations": 0, "exhaustive": True,
              "samples": ["%s: %d bytes along %s" % (name, mx[0], " > ".join(mx[1]))]}
        bad = None
        if tl["violated"]: bad = "invariant %s violated" % tl["violated"]
        elif "Assumption" in log_txt and "is false" in log_txt: bad = "the library owns writable static data (assumption NoWritableStatics is false)"
        elif not tl["ok"]:
            raise Infra("TLC failed on the extracted call graph (%s): %s" % (name, tl["error"]))
        if bad:
            st["violations"] = 1; nviol += 1
            print("VIOLATION property=C17 replay=%s/CallGraphData.tla" % d)
            print("  detail: %s: %s (see %s/tlc.log)" % (name, bad, d))
        stages.append(st)
    # the extracted model bound to executions: observed call stacks must be behaviours of the gcc -O0 model
    dyn = observed_stacks_stage(prop, tier, base, os.path.join(base, "gcc-O0-print", "CallGraphData.tla"))
    nviol += dyn["violations"]; stages.append(dyn)
    return finish(prop, tier, stages, t0, ["gcc 12 -fcallgraph-info/-fstack-usage/-fdump-ipa-cgraph, nm and size describe the object code faithfully",
                                            "an indirect call targets an address-taken library function or the opaque user callback",
                                            "libc functions called (memset memcmp memmove strlen snprintf printf putchar) do not allocate on behalf of the library"])


REGISTRY["C17"] = check_callgraph


# ---------------------------------------------------------------- C18 -------
import hashlib
from concurrent.futures import ThreadPoolExecutor

C18_CORPUS = {
    # engine: (replayer, prefix, [(module, cfg, overrides)])
    "parser": ("replay_parser", "BEH ", [
        ("MC_Nav.tla", "MC_Nav.cfg", _nav(2, 3, "ValsAll", "NamesRich", "LookRich", "OpsAll", "RootsOA")),
        ("MC_Nav.tla", "MC_Nav.cfg", _nav(3, 3, "ValsInt1", "NamesAB", "LookAB", "OpsReuse", "RootsOA")),
        ("MC_Stream.tla", "MC_Stream.cfg", dict(K=3, MaxD=2, Sigma="SigmaS", Names="NamesS", Roots="RootsOA", HistK=0)),
        ("MC_Safety.tla", "MC_Safety.cfg", _saf(1, 3, "MaxDs12", "SigmaTok", "FillsQ")),
        ("MC_Safety.tla", "MC_Safety.cfg", _saf(2, 3, "MaxDs2", "SigmaNest", "FillsFF")),
        ("MC_Verify.tla", "MC_Verify.cfg", dict(K=2, MaxDs="MaxDs123", Sigma="SigmaFull", Deep="FALSE")),
        ("MC_Nav.tla", "MC_Nav.cfg", _nav(2, 3, "ValsAll", "NamesRich", "LookAB", "OpsTrans", "RootsOA", 10))]),
    "writer": ("replay_writer", "WBEH ", [("MC_Writer.tla", "MC_Writer.cfg", WRITER_Q),
                                          ("MC_Writer.tla", "MC_Writer.cfg", dict(K=2, Alpha="AlphaInts", WithReset="FALSE", AllCaps="FALSE"))]),
    "tostring": ("replay_tostring", "TBEH ", [("MC_ToString.tla", "MC_ToString.cfg", _ts(2, 3, "ValsText", "NamesAB", "TRUE")),
                                              ("MC_ToString.tla", "MC_ToString.cfg", _ts(2, 2, "ValsWide", "NamesOdd", "FALSE"))]),
    "class": ("replay_class", "CBEH ", [("MC_Class.tla", "MC_Class.cfg", dict(K=2, Sigma="SigmaC", Families="TRUE"))]),
}
C18_CONFIGS = [("gcc-asan-ubsan", "gcc", "-O1 -g -fsanitize=address,undefined -fsanitize-recover=all")] + \
    [("%s%s%s" % (cc, o, sgn), cc, "%s %s" % (o, sgn)) for cc in ("gcc", "clang") for o in ("-O0", "-O2", "-Os") for sgn in ("-fsigned-char", "-funsigned-char")] + \
    [("clang-asan-ubsan", "clang", "-O1 -g -fsanitize=address,undefined -fsanitize-recover=all"),
     ("clang-msan", "clang", "-O1 -g -fsanitize=memory -fno-omit-frame-pointer")]


def gen_corpus(prop, engine, tier):
    replayer, prefix, models = C18_CORPUS[engine]
    odir = os.path.join(OUT, prop, "corpus"); os.makedirs(odir, exist_ok=True)
    path = os.path.join(odir, engine + ".beh")
    st_states = st_trans = 0
    with open(path, "w") as out:
        for i, (module, base_cfg, overrides) in enumerate(models):
            cfg = os.path.join(SPEC, "_%s_%s_%d_%d.cfg" % (prop, engine, i, os.getpid()))
            ov = dict(overrides); ov["EmitOn"] = "TRUE"
            vlib.mk_cfg(cfg, os.path.join(SPEC, base_cfg), ov)
            meta = tempfile.mkdtemp(prefix="tlc-", dir=odir)
            r = subprocess.run("cd %s && timeout 900 %s" % (SPEC, vlib.tlc_cmd(module, os.path.basename(cfg), metadir=meta)), shell=True, capture_output=True, text=True)
            shutil.rmtree(meta, ignore_errors=True); os.remove(cfg)
            tl = vlib.parse_tlc_log(r.stdout)
            if not tl["ok"]:
                raise Infra("corpus generation: TLC failed on %s: %s" % (module, tl["error"] or tl["violated"]))
            st_states += tl["distinct"]; st_trans += tl["states"]
            lines = [l[1:-1] for l in r.stdout.splitlines() if l.startswith('"' + prefix)]
            if module == "MC_Safety.tla":
                # every second garbage-filled behaviour runs over UNINITIALISED blocks instead (observable results
                # must not depend on them; the MemorySanitizer build reports any use of an uninitialised value)
                lines = [("BEH U " + l[7:]) if (l.startswith("BEH ff ") and i % 2) else l for i, l in enumerate(lines)]
            # keep the corpus at a size all 14 builds can run quickly: every k-th behaviour, seeded offset
            cap = 15000 if tier == "quick" else 400000
            if len(lines) > cap:
                k = len(lines) // cap + 1
                lines = lines[vlib.SEED % k::k]
            out.write("\n".join(lines) + "\n")
    return path, st_states, st_trans


def check_crossbuild(prop, tier, replay):
    t0 = time.time()
    base = os.path.join(OUT, prop); shutil.rmtree(base, ignore_errors=True); os.makedirs(base)
    corp = {}; states = trans = 0
    with ThreadPoolExecutor(max_workers=4) as ex:
        for eng, (path, a, b) in zip(C18_CORPUS, ex.map(lambda e: gen_corpus(prop, e, tier), C18_CORPUS)):
            corp[eng] = path; states += a; trans += b
    progs = [C18_CORPUS[e][0] for e in C18_CORPUS]
    log("C18: corpus generated after %.0fs" % (time.time() - t0))

    def run_config(c):
        name, cc, flags = c
        msan = "msan" in name
        bdir = vlib.build(name, [q for q in progs if not (msan and q == "replay_class")], cc=cc, flags=flags, tag="x-" + name)
        res = {}
        for eng, (replayer, prefix, _) in C18_CORPUS.items():
            if msan and eng == "class":
                continue        # libstdc++ is not MSan-instrumented
            tdir = os.path.join(base, name); os.makedirs(tdir, exist_ok=True)
            tr = os.path.join(tdir, eng + ".transcript")
            env = _env(); env["UBSAN_OPTIONS"] = "print_stacktrace=0:halt_on_error=0"; env["ASAN_OPTIONS"] = "detect_leaks=0:exitcode=66:allocator_may_return_null=1"
            r = subprocess.run("%s/%s --prop %s --outdir %s --replay %s --transcript %s --summary %s/%s.sum.json --max-report 0"
                               % (bdir, replayer, prop, tdir, corp[eng], tr, tdir, eng), shell=True, capture_output=True, text=True, env=env)
            summ = vlib.read_json("%s/%s.sum.json" % (tdir, eng))
            if summ is None:
                raise Infra("replayer %s failed in build %s: %s" % (replayer, name, r.stderr[-800:]))
            ub = len(re.findall(r"runtime error:|MemorySanitizer:", r.stderr))
            ubk = sorted(set(re.findall(r"(\S+:\d+):\d+: runtime error: ([^\n]*)", r.stderr)))[:10]
            h = hashlib.sha256(open(tr, "rb").read()).hexdigest()
            res[eng] = {"sha256": h, "behaviours": summ["behaviours"], "calls": summ["calls"], "violations_any": summ["violations_own"] + summ["violations_other"],
                        "crashes": summ["crashes"], "ub_reports": ub, "ub_kinds": ubk, "transcript": tr}
        return name, res

    with ThreadPoolExecutor(max_workers=7) as ex:
        results = dict(ex.map(run_config, C18_CONFIGS))
    log("C18: %d builds executed after %.0fs" % (len(C18_CONFIGS), time.time() - t0))
    ref_name = C18_CONFIGS[0][0]; ref = results[ref_name]
    nviol = 0; diffs = []; ub_notes = []
    for name, res in results.items():
        for eng, r in res.items():
            if r["crashes"]:
                r["sha256"] += "+crashes"       # a behaviour that kills one build is a difference
            if r["ub_reports"]:
                ub_notes.append({"build": name, "engine": eng, "reports": r["ub_reports"], "kinds": r["ub_kinds"]})
            if r["sha256"] != ref[eng]["sha256"]:
                # first differing behaviour
                a = open(ref[eng]["transcript"], errors="replace").read().split("\n# ")
                b = open(r["transcript"], errors="replace").read().split("\n# ")
                k = next((i for i in range(min(len(a), len(b))) if a[i] != b[i]), min(len(a), len(b)))
                vf = os.path.join(base, "viol-C18-%s-%s.beh" % (name, eng))
                with open(vf, "w") as f:
                    f.write((a[k].split("\n")[0] if k < len(a) else "(missing)") + "\n# property=C18\n# builds: %s vs %s, engine %s\n# reference: %s\n# other:     %s\n"
                            % (ref_name, name, eng, a[k][:1500] if k < len(a) else "", b[k][:1500] if k < len(b) else ""))
                nviol += 1; diffs.append((name, eng))
                print("VIOLATION property=C18 replay=%s" % vf)
                print("  detail: observable results of build %s differ from %s (engine %s), first at behaviour %d" % (name, ref_name, eng, k))
    total_beh = sum(r["behaviours"] for r in ref.values())
    ref_viol = sum(r["violations_any"] for r in ref.values())
    if ref_viol:
        print("NOTE the reference build shows %d Layer-A violations on the scenario corpus (reported by the checks of those properties)" % ref_viol)
    stage = {"stage": "cross-build", "kind": "scenario corpus generated by TLC, executed in %d builds" % len(C18_CONFIGS), "states": states, "transitions": trans,
             "behaviours_replayed": total_beh * len(C18_CONFIGS), "violations": nviol, "builds": [c[0] for c in C18_CONFIGS],
             "digests": {e: ref[e]["sha256"] for e in ref}, "differing": diffs, "ub_diagnostics": ub_notes,
             "reference_layerA_violations": ref_viol,
             "samples": [open(corp[e]).readline().strip() for e in corp]}
    # transcripts are large: keep only the reference
    for name, res in results.items():
        if name != ref_name and not any(d[0] == name for d in diffs):
            shutil.rmtree(os.path.join(base, name), ignore_errors=True)
    return finish(prop, tier, [stage], t0, ["x86-64 only (no 32-bit or ARM toolchain in the sandbox)",
                                             "the reference transcript is produced by the gcc ASan/UBSan build whose conformance to Layer A is checked by the replayers on the same corpus",
                                             "UBSan diagnostics are collected (recover mode) and listed, not counted as violations unless an observable differs"])


REGISTRY["C18"] = check_crossbuild
