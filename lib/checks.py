"""Per-property checks.  Every check = a list of stages; a stage either
  * explores a TLC model and replays every behaviour it prints into the real library
    (spec -> code), or
  * records executions of the real library and has TLC validate them against the
    specification (code -> spec).
Only an observable of the REAL library that Layer A forbids is a VIOLATION."""
import json, os, re, shutil, subprocess, sys, time, tempfile
import vlib
from vlib import Infra, log, OUT, SPEC, VERIF

REGISTRY = {}
MEMPROP = {"replay_parser": "C01", "replay_writer": "C04", "replay_tostring": "C13", "replay_class": "C15"}


def _env():
    e = dict(os.environ)
    e["ASAN_OPTIONS"] = "exitcode=66:abort_on_error=0:detect_leaks=0:allocator_may_return_null=1"
    e["UBSAN_OPTIONS"] = "print_stacktrace=1:halt_on_error=1:exitcode=67"
    return e


def _filter_known(prop, lines):
    """turn VIOLATION lines that match an OPEN known finding into KNOWN-FINDING lines"""
    kf = [f for f in vlib.known_findings().get("findings", []) if f.get("status") == "open"]
    out, nviol, nknown = [], 0, 0
    for ln in lines:
        m = re.match(r"VIOLATION property=(\S+) replay=(\S+)", ln)
        if not m:
            out.append(ln); continue
        p, path = m.group(1), m.group(2)
        body = ""
        try: body = open(path).read()
        except OSError: pass
        hit = None
        for f in kf:
            if f["property"] == p and re.search(f["match"], body):
                hit = f; break
        if hit:
            nknown += 1
            out.append("KNOWN-FINDING: property=%s %s" % (p, hit["what"]))
        else:
            nviol += 1
            out.append(ln)
    return out, nviol, nknown


def product_stage(prop, name, module, base_cfg, overrides, replayer="replay_parser", timeout=1500,
                  heap="8g", workers=None, extra_replayer_args=""):
    """TLC explores `module` under base_cfg+overrides with EmitOn=TRUE; every behaviour it prints is
    executed by `replayer` (ASan+UBSan build of the current tree)."""
    t0 = time.time()
    bdir = vlib.build("asan", [replayer])
    odir = os.path.join(OUT, prop, name)
    shutil.rmtree(odir, ignore_errors=True)
    os.makedirs(odir)
    cfg = os.path.join(SPEC, "_%s_%s_%d.cfg" % (prop, name, os.getpid()))
    ov = dict(overrides); ov["EmitOn"] = "TRUE"
    vlib.mk_cfg(cfg, os.path.join(SPEC, base_cfg), ov)
    meta = tempfile.mkdtemp(prefix="tlc-", dir=odir)
    tlc = vlib.tlc_cmd(module, os.path.basename(cfg), workers=workers, metadir=meta, heap=heap)
    rp = ("%s/%s --prop %s --memprop %s --outdir %s --tlclog %s/tlc.log --summary %s/sum.json --samples %s/samples.txt %s"
          % (bdir, replayer, prop, MEMPROP.get(replayer, "C01"), odir, odir, odir, odir, extra_replayer_args))
    cmd = "cd %s && timeout %d %s 2>&1 | %s 2>%s/replayer.err" % (SPEC, timeout, tlc, rp, odir)
    r = subprocess.run(cmd, shell=True, capture_output=True, text=True, env=_env())
    shutil.rmtree(meta, ignore_errors=True)
    try: os.remove(cfg)
    except OSError: pass
    tl = vlib.parse_tlc_log(open(os.path.join(odir, "tlc.log")).read() if os.path.exists(os.path.join(odir, "tlc.log")) else "")
    summ = vlib.read_json(os.path.join(odir, "sum.json"))
    if summ is None:
        raise Infra("replayer produced no summary (%s): %s" % (name, open(os.path.join(odir, "replayer.err")).read()[-1500:]))
    lines, nviol, nknown = _filter_known(prop, r.stdout.splitlines())
    for ln in lines:
        print(ln)
    samples = []
    sp = os.path.join(odir, "samples.txt")
    if os.path.exists(sp):
        samples = [l.strip() for l in open(sp)][:8]
    res = {"stage": name, "kind": "spec->code replay", "module": module, "constants": overrides,
           "states": tl["distinct"], "transitions": tl["states"], "depth": tl["depth"],
           "behaviours_replayed": summ["behaviours"], "calls": summ["calls"],
           "expected_fields_compared": summ["expected_fields_compared"], "reuse_probes": summ.get("reuse_probes", 0),
           "violations": nviol, "known": nknown, "other_property_notes": summ["violations_other"],
           "drift": {"ret": summ["drift_ret"], "used": summ["drift_used"], "obs": summ.get("drift_obs", 0), "abandoned": summ["abandoned_by_drift"]},
           "crashes": summ["crashes"], "hangs": summ["hangs"], "samples": samples, "wall_s": round(time.time() - t0, 1)}
    if tl["violated"]:
        res["model_invariant_violated"] = tl["violated"]
        if nviol + nknown == 0:
            raise Infra("MODEL-ERROR: TLC reports %s violated in %s but the real library conforms to Layer A on every "
                        "behaviour replayed: Layer I misrepresents the code (see %s/tlc.log)" % (tl["violated"], module, odir))
    elif not tl["ok"]:
        raise Infra("TLC did not complete (%s): %s" % (name, tl["error"]))
    if summ["behaviours"] == 0:
        raise Infra("vacuous: no behaviour was replayed in stage %s" % name)
    return res


def finish(prop, tier, stages, t0, assumptions, level="model_checking", extra_cov=None):
    viol = sum(s.get("violations", 0) for s in stages)
    samples = []
    for s in stages:
        samples += s.get("samples", [])[:4]
    drift = any((s.get("drift") or {}).get(k, 0) for s in stages for k in ("ret", "used", "obs", "abandoned"))
    cov = {"states": max(1, sum(s.get("states", 0) for s in stages)),
           "transitions": max(1, sum(s.get("transitions", 0) for s in stages)),
           "traces_validated_against_impl": sum(s.get("behaviours_replayed", 0) + s.get("traces_validated", 0) for s in stages),
           "samples": samples or ["(none)"],
           "exhaustive": all(s.get("exhaustive", True) for s in stages),
           "binding_layer_I": "drift observed (internal projections differ; model-level result does not transfer)" if drift else "intact",
           "stages": [{k: v for k, v in s.items() if k != "samples"} for s in stages]}
    if extra_cov: cov.update(extra_cov)
    vlib.write_evidence(prop, tier, level, cov, assumptions, time.time() - t0, viol)
    vlib.clean_old_builds()
    return 1 if viol else 0


def replay_file(prop, path, replayer="replay_parser"):
    bdir = vlib.build("asan", [replayer])
    odir = os.path.join(OUT, prop, "replay"); os.makedirs(odir, exist_ok=True)
    r = subprocess.run("%s/%s --prop %s --memprop %s --outdir %s --replay %s" % (bdir, replayer, prop, MEMPROP.get(replayer, "C01"), odir, path),
                       shell=True, env=_env())
    return 1 if r.returncode == 1 else (0 if r.returncode == 0 else 2)


ASSUME_COMMON = [
    "Layer I (spec/ParserImpl.tla etc.) is a faithful transcription of the C control flow; bound to the code by replaying every generated transition and comparing buffer_used (drift is reported, not hidden)",
    "ASan/UBSan (gcc 12) observe memory errors on the executions performed; exact-size heap blocks for document, parser struct and state array",
    "TLC 1.8.0 explores the bounded model exhaustively (fingerprint collision probability as printed by TLC)",
]

# ------------------------------------------------- MC_Nav based checks -------
# stage name -> constants of MC_Nav.  Every stage explores ALL documents the builder can
# produce within the bound and the complete graph of the enabled calls.
def _nav(MaxNodes, MaxNest, Vals, DocNames, LookNames, Ops, Roots, ParserMaxD=4):
    return dict(MaxNodes=MaxNodes, MaxNest=MaxNest, Vals=Vals, DocNames=DocNames, LookNames=LookNames,
                Ops=Ops, Roots=Roots, ParserMaxD=ParserMaxD)

NAV_STAGES = {
    "C06": {"quick":    [("nav", _nav(4, 3, "ValsInt1", "NamesAB", "LookAB", "OpsNavE", "RootsOA"))],
            "thorough": [("nav", _nav(6, 4, "ValsInt1", "NamesAB", "LookAB", "OpsNavE", "RootsOA")),
                         ("nav-mixed-values", _nav(4, 3, "ValsMix", "NamesAB", "LookAB", "OpsNavE", "RootsOA"))]},
    "C03": {"quick":    [("values-names", _nav(2, 2, "ValsAll", "NamesRich", "LookAB", "OpsNav", "RootsOA")),
                         ("values-3", _nav(3, 2, "ValsAll", "NamesAB", "LookAB", "OpsWalk", "RootsOA"))],
            "thorough": [("values-names", _nav(3, 3, "ValsAll", "NamesRich", "LookAB", "OpsWalk", "RootsOA")),
                         ("values-nest", _nav(3, 3, "ValsAll", "NamesAB", "LookAB", "OpsNav", "RootsOA"))]},
    "C07": {"quick":    [("lookup-structure", _nav(4, 3, "ValsInt1", "NamesAB", "LookAB", "OpsLook", "RootsOA")),
                         ("lookup-names", _nav(3, 2, "ValsInt1", "NamesRich", "LookRich", "OpsLook", "RootsO"))],
            "thorough": [("lookup-structure", _nav(5, 3, "ValsInt1", "NamesAB", "LookAB", "OpsLook", "RootsOA")),
                         ("lookup-names", _nav(3, 3, "ValsMix", "NamesRich", "LookRich", "OpsLook", "RootsO")),
                         ("lookup-raw", _nav(4, 3, "ValsInt1", "NamesAB", "LookAB", "OpsAll", "RootsOA"))]},
    "C10": {"quick":    [("transcribe-structure", _nav(5, 4, "ValsInt1", "NamesAB", "LookAB", "OpsTrans", "RootsOA", 10)),
                         ("transcribe-values", _nav(2, 3, "ValsAll", "NamesRich", "LookAB", "OpsTrans", "RootsOA", 10)),
                         ("transcribe-mixed", _nav(4, 3, "ValsMix", "NamesAB", "LookAB", "OpsTrans", "RootsOA", 10))],
            "thorough": [("transcribe-structure", _nav(7, 5, "ValsInt1", "NamesAB", "LookAB", "OpsTrans", "RootsOA", 10)),
                         ("transcribe-values", _nav(3, 3, "ValsAll", "NamesRich", "LookAB", "OpsTrans", "RootsOA", 10))]},
    "C11": {"quick":    [("raw", _nav(4, 3, "ValsInt1", "NamesAB", "LookAB", "OpsNav", "RootsOA"))],
            "thorough": [("raw", _nav(6, 4, "ValsInt1", "NamesAB", "LookAB", "OpsNav", "RootsOA")),
                         ("raw-lookup", _nav(4, 3, "ValsMix", "NamesAB", "LookAB", "OpsAll", "RootsOA"))]},
}


def check_nav(prop, tier, replay):
    if replay:
        return replay_file(prop, replay)
    t0 = time.time()
    stages = [product_stage(prop, name, "MC_Nav.tla", "MC_Nav.cfg", consts) for name, consts in NAV_STAGES[prop][tier]]
    return finish(prop, tier, stages, t0, ASSUME_COMMON)


for _p in NAV_STAGES:
    REGISTRY[_p] = check_nav


# ---------------------------------------------------------------- C08 -------
STREAM_STAGES = {
    "quick":    [("stream-k3", dict(K=3, MaxD=2, Sigma="SigmaS", Names="NamesS", Roots="RootsOA")),
                 ("stream-k2-large-alphabet", dict(K=2, MaxD=1, Sigma="SigmaL", Names="NamesS", Roots="RootsOA"))],
    "thorough": [("stream-k4", dict(K=4, MaxD=2, Sigma="SigmaS", Names="NamesS", Roots="RootsOA")),
                 ("stream-k3-large-alphabet", dict(K=3, MaxD=3, Sigma="SigmaL", Names="NamesS", Roots="RootsOA"))],
}


def check_stream(prop, tier, replay):
    if replay:
        return replay_file(prop, replay)
    t0 = time.time()
    stages = [product_stage(prop, name, "MC_Stream.tla", "MC_Stream.cfg", c) for name, c in STREAM_STAGES[tier]]
    return finish(prop, tier, stages, t0, ASSUME_COMMON)


REGISTRY["C08"] = check_stream


# ------------------------------------------------ MC_Safety based checks -------
def _saf(K, MaxCalls, MaxDs, Sigma, Fills, Names="NamesH"):
    return dict(K=K, MaxCalls=MaxCalls, MaxDs=MaxDs, Sigma=Sigma, Names=Names, Fills=Fills)

SAFETY_STAGES = {
    "quick":    [("hostile-tokens", _saf(2, 3, "MaxDs12", "SigmaTok", "FillsQ")),
                 ("hostile-bytes", _saf(2, 2, "MaxDs12", "SigmaByte", "FillsQ")),
                 ("hostile-bytes-3", _saf(3, 1, "MaxDs2", "SigmaByte", "FillsTwo"))],
    "thorough": [("hostile-tokens", _saf(3, 3, "MaxDs123", "SigmaTok", "FillsAll")),
                 ("hostile-bytes", _saf(3, 2, "MaxDs12", "SigmaByte", "FillsQ")),
                 ("hostile-bytes-4", _saf(4, 1, "MaxDs12", "SigmaByte", "FillsQ")),
                 ("hostile-deep", _saf(2, 4, "MaxDs12", "SigmaTok", "FillsQ"))],
}
WRITER_Q = dict(K=2, Alpha="AlphaQ", WithReset="TRUE", AllCaps="TRUE")
WRITER_T = dict(K=3, Alpha="AlphaQ", WithReset="TRUE", AllCaps="TRUE")
EXTRA_STAGES = {
    "C12": {"quick": [("reuse-nav", "MC_Nav.tla", "MC_Nav.cfg", _nav(4, 3, "ValsInt1", "NamesAB", "LookAB", "OpsReuse", "RootsOA")),
                      ("writer-reset", "MC_Writer.tla", "MC_Writer.cfg", WRITER_Q)],
            "thorough": [("reuse-nav", "MC_Nav.tla", "MC_Nav.cfg", _nav(5, 3, "ValsMix", "NamesAB", "LookAB", "OpsReuse", "RootsOA")),
                         ("writer-reset", "MC_Writer.tla", "MC_Writer.cfg", WRITER_T)]},
    "C09": {"quick": [("writer-latch", "MC_Writer.tla", "MC_Writer.cfg", WRITER_Q)],
            "thorough": [("writer-latch", "MC_Writer.tla", "MC_Writer.cfg", WRITER_T)]},
}


def check_safety(prop, tier, replay):
    if replay:
        return replay_file(prop, replay)
    t0 = time.time()
    stages = [product_stage(prop, name, "MC_Safety.tla", "MC_Safety.cfg", c) for name, c in SAFETY_STAGES[tier]]
    for name, mod, cfg, c in EXTRA_STAGES.get(prop, {}).get(tier, []):
        stages.append(product_stage(prop, name, mod, cfg, c, replayer="replay_writer" if mod == "MC_Writer.tla" else "replay_parser"))
    return finish(prop, tier, stages, t0, ASSUME_COMMON)


for _p in ("C01", "C09", "C12", "C16"):
    REGISTRY[_p] = check_safety


# ---------------------------------------------------------------- C02 -------
VERIFY_STAGES = {
    "quick":    [("tokens-k2-full", dict(K=2, MaxDs="MaxDs123", Sigma="SigmaFull", Deep="FALSE")),
                 ("tokens-k3-full", dict(K=3, MaxDs="MaxDs2", Sigma="SigmaFull", Deep="FALSE")),
                 ("nesting-limits", dict(K=0, MaxDs="MaxDsDeep", Sigma="SigmaMid", Deep="TRUE"))],
    "thorough": [("tokens-k3-full", dict(K=3, MaxDs="MaxDs123", Sigma="SigmaFull", Deep="FALSE")),
                 ("tokens-k4-full", dict(K=4, MaxDs="MaxDs2", Sigma="SigmaFull", Deep="FALSE")),
                 ("tokens-k2-wide", dict(K=2, MaxDs="MaxDs123", Sigma="SigmaWide", Deep="FALSE")),
                 ("tokens-k4-mid", dict(K=4, MaxDs="MaxDs2", Sigma="SigmaMid", Deep="FALSE")),
                 ("nesting-limits", dict(K=0, MaxDs="MaxDsDeep", Sigma="SigmaMid", Deep="TRUE"))],
}


def check_verify(prop, tier, replay):
    if replay:
        return replay_file(prop, replay)
    t0 = time.time()
    stages = [product_stage(prop, name, "MC_Verify.tla", "MC_Verify.cfg", c) for name, c in VERIFY_STAGES[tier]]
    return finish(prop, tier, stages, t0, ASSUME_COMMON)


REGISTRY["C02"] = check_verify


# ------------------------------------------------------------ C04 / C05 -------
WRITER_STAGES = {
    "C04": {"quick":    [("calls-k2", WRITER_Q)],
            "thorough": [("calls-k3", WRITER_T), ("calls-k2-ints", dict(K=2, Alpha="AlphaInts", WithReset="FALSE", AllCaps="TRUE"))]},
    "C05": {"quick":    [("calls-k3", dict(K=3, Alpha="AlphaQ", WithReset="FALSE", AllCaps="FALSE")),
                         ("calls-k3-ints", dict(K=3, Alpha="AlphaInts", WithReset="FALSE", AllCaps="FALSE"))],
            "thorough": [("calls-k4", dict(K=4, Alpha="AlphaQ", WithReset="FALSE", AllCaps="FALSE")),
                         ("calls-k4-ints", dict(K=4, Alpha="AlphaInts", WithReset="FALSE", AllCaps="FALSE"))]},
}
ASSUME_WRITER = [
    "Layer I (spec/WriterImpl.tla) transcribes binson_writer.c; bound to the code by comparing the exact number of bytes stored (drift reported)",
    "stored bytes are observed by running every behaviour over 0xAA and over 0x55 fill; ASan with an exact-size destination observes any byte beyond the capacity",
    "payload lengths in the TLC alphabet are 0,1,2,127,128; longer payloads are covered by recorded traces",
]


def check_writer(prop, tier, replay):
    if replay:
        return replay_file(prop, replay, "replay_writer")
    t0 = time.time()
    stages = [product_stage(prop, name, "MC_Writer.tla", "MC_Writer.cfg", c, replayer="replay_writer") for name, c in WRITER_STAGES[prop][tier]]
    return finish(prop, tier, stages, t0, ASSUME_WRITER)


REGISTRY["C04"] = check_writer
REGISTRY["C05"] = check_writer


# ------------------------------------------------------------ C13 / C14 -------
def _ts(MaxNodes, MaxNest, Vals, DocNames, AllCaps, WithInvalid="TRUE", Roots="RootsOA"):
    return dict(MaxNodes=MaxNodes, MaxNest=MaxNest, Vals=Vals, DocNames=DocNames, Roots=Roots, AllCaps=AllCaps, WithInvalid=WithInvalid)

TOSTRING_STAGES = {
    "C13": {"quick":    [("caps-text", _ts(3, 3, "ValsText", "NamesAB", "TRUE")),
                         ("caps-wide", _ts(1, 2, "ValsWide", "NamesOdd", "TRUE"))],
            "thorough": [("caps-text", _ts(4, 3, "ValsText", "NamesAB", "TRUE")),
                         ("caps-wide", _ts(2, 2, "ValsWide", "NamesOdd", "TRUE"))]},
    "C14": {"quick":    [("siblings", _ts(5, 4, "ValsOne", "NamesAB", "FALSE", "FALSE")),
                         ("values", _ts(2, 2, "ValsWide", "NamesOdd", "FALSE", "FALSE")),
                         ("text", _ts(3, 3, "ValsText", "NamesAB", "FALSE", "FALSE"))],
            "thorough": [("siblings", _ts(7, 4, "ValsOne", "NamesAB", "FALSE", "FALSE")),
                         ("values", _ts(3, 3, "ValsWide", "NamesOdd", "FALSE", "FALSE")),
                         ("text", _ts(4, 3, "ValsText", "NamesAB", "FALSE", "FALSE"))]},
}
ASSUME_TS = [
    "Layer I (spec/ToStringImpl.tla) transcribes the two print callbacks incl. the snprintf/available bookkeeping; bound by comparing the stored high-water mark (drift reported)",
    "printf %f is an uninterpreted table (spec/FmtTable.tla) generated from the platform libc by a program that does not link the library; re-generated and compared at every run",
    "ASan with an exact-size text destination observes any byte stored at or beyond the capacity",
]


def fmt_table_guard():
    """the committed FmtTable.tla must be what this platform's libc prints"""
    exe = os.path.join(vlib.BUILD, "gen_fmttable")
    os.makedirs(vlib.BUILD, exist_ok=True)
    r = subprocess.run("gcc -O1 -o %s %s/gen_fmttable.c && %s" % (exe, vlib.HARNESS, exe), shell=True, capture_output=True, text=True)
    if r.returncode != 0:
        raise Infra("gen_fmttable failed: " + r.stderr[-500:])
    if r.stdout != open(os.path.join(SPEC, "FmtTable.tla")).read():
        raise Infra("spec/FmtTable.tla differs from what this platform's snprintf(%f) produces; regenerate it with harness/gen_fmttable.c")


def check_tostring(prop, tier, replay):
    if replay:
        return replay_file(prop, replay, "replay_tostring")
    t0 = time.time()
    fmt_table_guard()
    stages = [product_stage(prop, name, "MC_ToString.tla", "MC_ToString.cfg", c, replayer="replay_tostring") for name, c in TOSTRING_STAGES[prop][tier]]
    return finish(prop, tier, stages, t0, ASSUME_TS)


REGISTRY["C13"] = check_tostring
REGISTRY["C14"] = check_tostring


# ---------------------------------------------------------------- C15 -------
CLASS_STAGES = {
    "quick":    [("bytes-k3", dict(K=3, Sigma="SigmaC", Families="TRUE"))],
    "thorough": [("bytes-k4", dict(K=4, Sigma="SigmaC", Families="TRUE"))],
}
ASSUME_CLASS = [
    "Layer I (spec/ClassImpl.tla) models binson.cpp as call scripts over ParserImpl/WriterImpl",
    "each batch of behaviours runs in a forked child under ASan/UBSan: a crash is an observation attributed to its behaviour",
    "std::map<std::string,...> order is the platform's std::string order (unsigned bytewise)",
]


def check_class(prop, tier, replay):
    if replay:
        return replay_file(prop, replay, "replay_class")
    t0 = time.time()
    stages = [product_stage(prop, name, "MC_Class.tla", "MC_Class.cfg", c, replayer="replay_class") for name, c in CLASS_STAGES[tier]]
    return finish(prop, tier, stages, t0, ASSUME_CLASS)


REGISTRY["C15"] = check_class
