------------------------------ MODULE MC_Micro ------------------------------
(***************************************************************************)
(* C16 (termination): the `while (proceed)` loop of _advance_parsing as a  *)
(* micro-step machine - ONE loop iteration (ParserImpl!Iter) per TLC step. *)
(* All token strings of up to K tokens x every scan-flag set a public call *)
(* can start the loop with (incl. lookups), from every parser state that   *)
(* up to MaxCalls earlier calls can leave behind (not only sensible ones). *)
(*   Progress   - an iteration that continues has strictly advanced the    *)
(*                cursor (the variant function of the loop)                *)
(*   Terminates - under weak fairness of Step every started call returns   *)
(*   Work       - iterations <= bytes moved over + 1                       *)
(* No state constraint is used: the graph is finite because documents are. *)
(***************************************************************************)
EXTENDS Integers, Sequences, FiniteSets, TLC
CONSTANTS K, MaxD, MaxCalls, Sigma, Names

PI == INSTANCE ParserImpl
VARIABLES phase, buf, n, P, L, pc, calls, used0
vars == <<phase, buf, n, P, L, pc, calls, used0>>
Idle == [P |-> PI!BlankP(MaxD), sf |-> {}, scan |-> <<>>, hasScan |-> FALSE, oAd |-> 0, oDepth |-> 0, bc |-> 0, steps |-> 0, evs |-> <<>>, hi |-> 0]

Init == /\ phase = "build" /\ buf \in {<<64>>, <<66>>} /\ n = 0 /\ P = PI!BlankP(MaxD) /\ L = Idle /\ pc = "idle" /\ calls = 0 /\ used0 = 0
Add == /\ phase = "build" /\ n < K /\ \E i \in 1..Len(Sigma) : buf' = buf \o Sigma[i] /\ n' = n + 1
       /\ UNCHANGED <<phase, P, L, pc, calls, used0>>
Start == /\ phase = "build"
         /\ \E tail \in {<<>>, <<65>>, <<67>>} :
              /\ buf' = buf \o tail
              /\ LET i0 == PI!InitP(IF buf[1] = 64 THEN "O" ELSE "A", buf', MaxD) IN
                 P' = i0.P /\ phase' = IF i0.ok THEN "run" ELSE "dead"
         /\ UNCHANGED <<n, L, pc, calls, used0>>
\* a public call enters the loop
Begin(sf, hasScan, scan) ==
  /\ phase = "run" /\ pc = "idle" /\ calls < MaxCalls /\ P.err = "NONE"
  /\ L' = [PI!L0(P, sf, hasScan, scan) EXCEPT !.evs = <<>>]
  /\ pc' = "running" /\ calls' = calls + 1 /\ used0' = P.used
  /\ UNCHANGED <<phase, buf, n, P>>
Step == /\ pc = "running"
        /\ LET r == PI!Iter(L, buf) IN
           \* the callback log is irrelevant here: keep the state small
           /\ L' = [r.L EXCEPT !.evs = <<>>]
           /\ IF r.status = "cont" THEN pc' = "running" /\ P' = P
              ELSE pc' = "idle" /\ P' = r.L.P
        /\ UNCHANGED <<phase, buf, n, calls, used0>>
Flags == {{"VALUE"}, {"ENTER_OBJ"}, {"ENTER_ARR"}, {"LEAVE_OBJ"}, {"LEAVE_ARR"}, {"VERIFY"}}
Next == Add \/ Start \/ Step \/ (\E sf \in Flags : Begin(sf, FALSE, <<>>)) \/ (\E nm \in Names : Begin({"VALUE"}, TRUE, nm))
Spec == Init /\ [][Next]_vars /\ WF_vars(Step)

Terminates == (pc = "running") ~> (pc = "idle")
Progress == [][(pc = "running" /\ pc' = "running") => L'.P.used > L.P.used]_vars
Work == pc = "running" => L.steps <= (L.hi - used0) + 1
NoOob == ~P.oob /\ ~L.P.oob

SigmaM == << <<64>>, <<65>>, <<66>>, <<67>>, <<68>>, <<16, 5>>, <<20, 1, 97>>, <<20, 1, 98>>, <<0>>, <<24, 1, 170>>, <<17, 5, 0>>, <<20, 5, 97>> >>
NamesM == {<<97>>, <<>>, <<99>>}
=============================================================================
