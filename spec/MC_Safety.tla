------------------------------ MODULE MC_Safety ------------------------------
(***************************************************************************)
(* C01 / C09 / C12 / C16 at model level: raw byte strings and token        *)
(* strings x BOTH root kinds x EVERY public call at every step (not only   *)
(* sensible ones) x garbage pre-states of the parser object (the struct    *)
(* and state array memset to a fill byte before init, as an application    *)
(* that reuses stack memory would have it) x re-init / reset / verify from *)
(* every reachable state.                                                  *)
(*                                                                         *)
(* Ghosts of ParserImpl decide the invariants:                             *)
(*   oob   - an index outside st[1..maxd] was used                  (C01)  *)
(*   used  - 0 <= used <= size whenever no error is set             (C01)  *)
(*   Latch - once err # NONE every advancing call is FALSE, err stays(C09) *)
(*   Fresh - an accepted init/reset/verify yields the fresh record  (C12)  *)
(*   Work  - callbacks <= bytes moved over + 1 per inner advance    (C16)  *)
(* Field lookups are issued only while Layer I is inside an object (the    *)
(* documented precondition of the API).                                    *)
(***************************************************************************)
EXTENDS Integers, Sequences, FiniteSets, TLC
CONSTANTS K, MaxCalls, MaxDs, Sigma, Names, Fills, EmitOn,
          LookupsAnywhere   \* TRUE: field lookups are issued in array context too (outside the documented precondition;
                            \* used for C16 only: whatever the call, it must return)

PI == INSTANCE ParserImpl
F  == INSTANCE BinsonFormat
E  == INSTANCE Emit

VARIABLES phase, buf, n, maxd, fill, P, prevErr, last, steps, path, clean
vars == <<phase, buf, n, maxd, fill, P, prevErr, last, steps, path, clean>>
\* clean: an init/reset/verify has been accepted, so buffer_used no longer holds fill bytes
View == <<phase, buf, n, maxd, fill, P, steps, clean>>

NoLast == [adv |-> FALSE, ret |-> FALSE, cbs |-> 0, moved |-> 0, inner |-> 0, fresh |-> TRUE]

\* what memset(fill) of the struct and the state array means for the model
FlagBits(b) == {x \in {"F", "V", "A1", "A2"} :
                  (x = "F" /\ b % 2 = 1) \/ (x = "V" /\ (b \div 2) % 2 = 1) \/
                  (x = "A1" /\ (b \div 4) % 2 = 1) \/ (x = "A2" /\ (b \div 8) % 2 = 1)}
GarbageLevel(b) == [PI!ZeroLevel EXCEPT !.flags = FlagBits(b), !.ad = b, !.ctype = IF b = 0 THEN "none" ELSE "garbage",
                                       !.hasName = (b # 0)]
GarbageP(b, md) == [ptype |-> "X", depth |-> b, maxd |-> md, size |-> 0, used |-> 0, err |-> IF b = 0 THEN "NONE" ELSE "garbage",
                    cur |-> IF b = 0 THEN 1 ELSE md + 1,     \* a wild current_state pointer
                    st |-> [i \in 1..md |-> GarbageLevel(b)], oob |-> FALSE]
FillStr(b) == IF b = 0 THEN "Z" ELSE F!Hex2(b)

Init == /\ phase = "build" /\ buf \in {<<64>>, <<66>>, <<>>} /\ n = 0 /\ maxd \in MaxDs /\ fill \in Fills
        /\ P = GarbageP(fill, maxd) /\ prevErr = "NONE" /\ last = NoLast /\ steps = 0 /\ path = "" /\ clean = (fill = 0)

Add == /\ phase = "build" /\ n < K
       /\ \E i \in 1..Len(Sigma) : buf' = buf \o Sigma[i]
       /\ n' = n + 1 /\ UNCHANGED <<phase, maxd, fill, P, prevErr, last, steps, path, clean>>

Line(pfx, lst) == "BEH " \o FillStr(fill) \o " " \o ToString(maxd) \o " | " \o pfx \o "| " \o lst
Pred(op, arg, r, uknown) ==
  E!Full(op, arg, E!BitI(r.ret), "~" \o ToString(E!ErrCode(r.P.err)), "x",
         "~" \o ToString(E!TypeCode(PI!GetType(r.P))), "x", "x", IF uknown THEN ToString(r.P.used) ELSE "x")

\* first init, on a parser object holding garbage
Start ==
  /\ phase = "build"
  /\ \E root \in {"O", "A"} :
       LET i0 == PI!InitImpl(P, buf, root)
           arg == root \o F!HexStr(buf) IN
       /\ phase' = "run" /\ P' = i0.P
       /\ path' = E!Pre("I", arg, E!BitI(i0.ok)) \o " "
       /\ last' = [NoLast EXCEPT !.fresh = (~i0.ok \/ i0.P = PI!InitP(root, buf, maxd).P)]
       /\ clean' = (clean \/ i0.ok)
       /\ (EmitOn => PrintT(Line("", Pred("I", arg, [P |-> i0.P, ret |-> i0.ok], clean \/ i0.ok))))
  /\ UNCHANGED <<buf, n, maxd, fill, prevErr, steps>>

RootOf(PP) == PP.ptype
Do(op, arg, r, adv, inner) ==
  /\ P' = r.P /\ prevErr' = P.err /\ steps' = steps + 1
  \* bytes the call ADVANCED over: the net movement of the cursor (after a lookup's rewind); when the call
  \* ends in an error the cursor is meaningless and the high-water mark is used instead
  /\ last' = [adv |-> adv, ret |-> r.ret, cbs |-> Len(r.evs),
              moved |-> IF r.P.err = "NONE" THEN r.P.used - P.used ELSE r.hi - P.used, inner |-> inner, fresh |-> TRUE]
  /\ path' = path \o E!Pre(op, arg, E!BitI(r.ret)) \o " "
  /\ (EmitOn => PrintT(Line(path, Pred(op, arg, r, clean))))
  /\ UNCHANGED <<phase, buf, n, maxd, fill, clean>>
\* init / reset / verify: when accepted the parser must equal the fresh one (C12)
Again(op, arg, PP, ok, root) ==
  /\ P' = PP /\ prevErr' = "NONE" /\ steps' = steps + 1
  /\ last' = [NoLast EXCEPT !.fresh = (~ok \/ PP = PI!InitP(root, buf, maxd).P)]
  /\ path' = path \o E!Pre(op, arg, E!BitI(ok)) \o " "
  /\ (EmitOn => PrintT(Line(path, E!Full(op, arg, E!BitI(ok), "~" \o ToString(E!ErrCode(PP.err)), "x", "x", "x",
                                       IF ok THEN "P" ELSE "x", IF ok THEN "0" ELSE "x"))))
  /\ clean' = (clean \/ ok)
  /\ UNCHANGED <<phase, buf, n, maxd, fill>>

InObjNow == P.err = "NONE" /\ P.cur <= maxd /\ PI!InObj(P.st[PI!LeaveIdx(P)].flags)
GetNameR == LET g == PI!GetName(P) IN [P |-> g.P, ret |-> g.ok, evs |-> <<>>, hi |-> P.used]

Run ==
  /\ phase = "run" /\ steps < MaxCalls
  /\ \/ Do("n", "", PI!NextP(P, buf), TRUE, 1)
     \/ \E ty \in {"integer", "object"} : Do("ne", ToString(E!TypeCode(ty)), PI!NextEnsure(P, buf, ty), TRUE, 1)
     \/ Do("io", "", PI!GoIntoObject(P, buf), TRUE, 1)
     \/ Do("ia", "", PI!GoIntoArray(P, buf), TRUE, 1)
     \/ Do("lo", "", PI!LeaveObject(P, buf), TRUE, 1)
     \/ Do("la", "", PI!LeaveArray(P, buf), TRUE, 1)
     \/ \E op \in {"raw", "tw", "twe"} : Do(op, "", PI!GetRaw(P, buf), TRUE, 2)
     \/ Do("gn", "", GetNameR, FALSE, 0)
     \/ Do("fN", "", PI!FieldNull(P), TRUE, 0)
     \/ ((LookupsAnywhere \/ InObjNow) /\ \E nm \in Names : Do("f", F!HexStr(nm), PI!Field(P, buf, nm), TRUE, Len(buf)))
     \/ ((LookupsAnywhere \/ InObjNow) /\ \E nm \in Names : Do("fe", F!HexStr(nm) \o ".6", PI!FieldEnsure(P, buf, nm, "integer"), TRUE, Len(buf)))
     \/ (P.ptype \in {"O", "A"} /\ LET r == PI!Verify(P, buf) IN Again("v", "", r.P, r.ret, P.ptype))
     \/ (P.ptype \in {"O", "A"} /\ LET r == PI!ResetCall(P, buf) IN Again("rs", "", r.P, r.ret, P.ptype))
     \/ \E root \in {"O", "A"} : LET i == PI!InitImpl(P, buf, root) IN Again("I", root \o F!HexStr(buf), i.P, i.ok, root)

Next == Add \/ Start \/ Run
Spec == Init /\ [][Next]_vars

\* ---------- invariants ------------------------------------------------------
NoOob == ~P.oob                                                                  \* C01
CursorInside == (phase = "run" /\ P.err = "NONE") => (P.used >= 0 /\ P.used <= Len(buf) /\ P.depth <= maxd /\ P.cur <= maxd)
Latch == (phase = "run" /\ last.adv /\ prevErr # "NONE") => (~last.ret /\ P.err # "NONE")   \* C09
NeutralWhenErr == (phase = "run" /\ P.err # "NONE") =>
                    /\ PI!GetType(P) = "none" /\ PI!GetInteger(P) = PI!Zero8 /\ PI!GetDouble(P) = PI!Zero8
                    /\ ~PI!GetBoolean(P) /\ ~PI!GetStringSpan(P)[1] /\ ~PI!GetBytesSpan(P)[1] /\ ~PI!GetName(P).ok
FreshAfterInit == last.fresh                                                     \* C12
\* C16: token callbacks <= bytes moved over + 1 per inner _advance_parsing
Work == (phase = "run" /\ last.adv /\ last.inner \in {1, 2}) => last.cbs <= last.moved + last.inner
WorkLookup == (phase = "run" /\ last.adv /\ last.inner > 2) => last.cbs <= last.moved + 1

\* ---------- constants ---------------------------------------------------------
SigmaTok == << <<64>>, <<65>>, <<66>>, <<67>>, <<68>>, <<16, 5>>, <<17, 5, 0>>, <<20, 1, 97>>, <<20, 1, 98>>, <<20, 0>>,
               <<21, 1, 0, 97>>, <<0>>, <<17, 128>>, <<24, 1, 170>>, <<20, 5, 97>>, <<70, 1, 2>> >>
SigmaByte == << <<64>>, <<65>>, <<66>>, <<67>>, <<68>>, <<16>>, <<17>>, <<20>>, <<21>>, <<24>>, <<70>>, <<0>>, <<1>>, <<127>>, <<128>>, <<255>> >>
\* a small alphabet that can nest within two tokens (for the uninitialised-memory scenarios of C18)
SigmaNest == << <<64>>, <<65>>, <<66>>, <<67>>, <<16, 5>>, <<20, 1, 97>> >>
FillsFF == {255}
NamesH == {<<97>>, <<>>, <<99>>}
FillsAll == {0, 255, 165, 1, 200}
FillsQ == {0, 255, 200}
MaxDs123 == {1, 2, 3}
MaxDs12 == {1, 2}
MaxDs2 == {2}
FillsTwo == {0, 200}
=============================================================================
