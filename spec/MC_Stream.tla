------------------------------ MODULE MC_Stream ------------------------------
(***************************************************************************)
(* C08: streaming traversal is exactly as strict as verify.                *)
(* ALL token strings over Sigma (valid or not, closed or not) x ALL        *)
(* adaptive protocol-following strategies.  "Adaptive" = the next call may *)
(* depend on the answers so far; here that is the nondeterminism of Nav    *)
(* restricted by a protocol predicate evaluated on Layer I's OWN answers   *)
(* (the document may be malformed, so there is no tree to consult).        *)
(* Layer A contributes one bit per document: Parse(buf).ok.                *)
(***************************************************************************)
EXTENDS Integers, Sequences, FiniteSets, TLC
CONSTANTS K, MaxD, Sigma, Names, Roots, HistK, EmitOn,
          Stems     \* byte strings (starting with the root token) that the builder may start from instead of the bare root:
                    \* deep nestings that K tokens could never reach, continued with K arbitrary tokens

PI == INSTANCE ParserImpl
F  == INSTANCE BinsonFormat
E  == INSTANCE Emit

VARIABLES phase, buf, n, P, stk, on, allOk, ref, path, hist
vars == <<phase, buf, n, P, stk, on, allOk, ref, path, hist>>
\* hist = the last HistK calls (see MC_Nav): part of the explored state
View == <<phase, buf, n, P, stk, on, allOk, hist>>
Push(h, tok) == IF HistK = 0 THEN <<>> ELSE LET a == Append(h, tok) IN IF Len(a) > HistK THEN SubSeq(a, Len(a) - HistK + 1, Len(a)) ELSE a

Init == /\ phase = "build" /\ (\/ \E r \in Roots : buf = <<IF r = "O" THEN 64 ELSE 66>>
                            \/ buf \in Stems)
        /\ n = 0 /\ P = PI!BlankP(MaxD) /\ stk = <<>> /\ on = "none" /\ allOk = TRUE /\ ref = FALSE /\ path = "" /\ hist = <<>>

Add == /\ phase = "build" /\ n < K
       /\ \E i \in 1..Len(Sigma) : buf' = buf \o Sigma[i]
       /\ n' = n + 1 /\ UNCHANGED <<phase, P, stk, on, allOk, ref, path, hist>>

Root == IF buf[1] = 64 THEN "O" ELSE "A"
EndStr(r) == "end=" \o E!Bit(r)
Line(pfx, last, r) == "BEH Z " \o ToString(MaxD) \o " | " \o pfx \o "| " \o last \o " " \o EndStr(r)
\* Layer-I prediction of everything observable after a call (drift only)
Pred(op, arg, r) ==
  E!Full(op, arg, E!BitI(r.ret), "~" \o ToString(E!ErrCode(r.P.err)), "x",
         "~" \o ToString(E!TypeCode(PI!GetType(r.P))), "x", "x", ToString(r.P.used))

Start ==
  /\ phase = "build"
  /\ \E tail \in {<<>>, <<65>>, <<67>>} :
       LET b2 == buf \o tail
           i0 == PI!InitP(Root, b2, MaxD)
           rf == F!Parse(b2, Root, MaxD).ok
           arg == Root \o F!HexStr(b2)
           \* a well-formed document must be accepted by init (C02); otherwise init is unspecified
           rch == IF rf THEN "1" ELSE E!BitI(i0.ok)
       IN /\ buf' = b2 /\ P' = i0.P /\ ref' = rf
          /\ phase' = IF i0.ok THEN "start" ELSE "dead"
          /\ path' = E!Pre("I", arg, rch) \o " "
          /\ (EmitOn => PrintT(Line("", E!Full("I", arg, rch, IF rf THEN "0" ELSE "~" \o ToString(E!ErrCode(i0.P.err)), "x", "x", "x", "x", "x"), rf)))
  /\ UNCHANGED <<n, stk, on, allOk, hist>>

Top == stk[Len(stk)]
Do(op, arg, r, stk2, on2, must) ==
  /\ P' = r.P /\ stk' = stk2 /\ on' = on2
  /\ allOk' = (allOk /\ (must => r.ret))
  /\ path' = path \o E!Pre(op, arg, E!BitI(r.ret)) \o " "
  /\ (EmitOn => PrintT(Line(path, Pred(op, arg, r), ref)))
  /\ hist' = Push(hist, op \o arg)
  /\ UNCHANGED <<buf, n, ref>>
OnOf(r) == IF r.ret THEN PI!GetType(r.P) ELSE "none"

Nav ==
  \/ /\ phase = "start" /\ phase' = "nav"
     /\ LET r == IF Root = "O" THEN PI!GoIntoObject(P, buf) ELSE PI!GoIntoArray(P, buf) IN
        Do(IF Root = "O" THEN "io" ELSE "ia", "", r, IF r.ret THEN <<Root>> ELSE <<>>, "none", TRUE)
  \/ /\ phase = "nav" /\ stk # <<>> /\ allOk /\ UNCHANGED phase
     /\ \/ LET r == PI!NextP(P, buf) IN Do("n", "", r, stk, OnOf(r), FALSE)
        \/ /\ on = "object" /\ LET r == PI!GoIntoObject(P, buf) IN Do("io", "", r, IF r.ret THEN Append(stk, "O") ELSE stk, "none", TRUE)
        \/ /\ on = "array" /\ LET r == PI!GoIntoArray(P, buf) IN Do("ia", "", r, IF r.ret THEN Append(stk, "A") ELSE stk, "none", TRUE)
        \/ /\ on \in {"object", "array"} /\ LET r == PI!GetRaw(P, buf) IN Do("raw", "", r, stk, "none", TRUE)
        \/ /\ Top = "O" /\ \E nm \in Names : LET r == PI!Field(P, buf, nm) IN Do("f", F!HexStr(nm), r, stk, OnOf(r), FALSE)
  \/ /\ phase = "nav" /\ stk # <<>> /\ allOk
     /\ LET r == IF Top = "O" THEN PI!LeaveObject(P, buf) ELSE PI!LeaveArray(P, buf) IN
        /\ Do(IF Top = "O" THEN "lo" ELSE "la", "", r, SubSeq(stk, 1, Len(stk) - 1), "none", TRUE)
        /\ phase' = IF Len(stk) = 1 THEN "end" ELSE phase

Next == Add \/ Start \/ Nav
Spec == Init /\ [][Next]_vars

Verdict == allOk /\ P.err = PI!NONE
\* a completed traversal agrees with the recogniser; an aborted or failed one implies invalid
Strict == /\ (phase = "end" => (Verdict <=> ref))
          /\ (phase \in {"nav", "end"} /\ ~allOk => ~ref)
          /\ (phase \in {"nav", "end"} /\ P.err # PI!NONE => ~ref)
          /\ (phase = "dead" => ~ref)
NoOob == ~P.oob

\* ---------- constants for the .cfg files ----------------------------------
SigmaS == << <<64>>, <<65>>, <<66>>, <<67>>, <<68>>, <<16, 5>>, <<17, 5, 0>>, <<20, 1, 97>>, <<20, 1, 98>>, <<20, 0>>,
             <<21, 1, 0, 97>>, <<0>>, <<17, 128>>, <<24, 1, 170>>, <<21, 128, 0>> \o [i \in 1..128 |-> 109] >>
SigmaL == SigmaS \o << <<70, 0, 0, 0, 0, 0, 0, 240, 63>>, <<19, 0, 0, 0, 128, 0, 0, 0, 0>>, <<18, 0, 128, 0, 0>>,
                        <<20, 5, 97>>, <<24, 255>>, <<69>>, <<20, 128>> \o [i \in 1..128 |-> 97] >>
\* tiny alphabet for name-order violations (name,value,name,value needs 4 tokens)
SigmaT == << <<20, 1, 97>>, <<20, 1, 98>>, <<20, 1, 99>>, <<16, 5>>, <<65>>, <<64>> >>
NamesS == {<<97>>, <<98>>, <<>>, <<99>>}
RootsOA == {"O", "A"}
RootsO == {"O"}
RootsNone == {}
NoStems == {}
\* deep stems: below a root object, every nesting path of 3 or 4 containers (object members are named "a"),
\* with the innermost 0..all of them closed again
StemPaths == UNION {[1..L -> {"O", "A"}] : L \in 3..4}
OpenBytes(p) == F!Flatten([i \in 1..Len(p) |-> (IF (IF i = 1 THEN "O" ELSE p[i - 1]) = "O" THEN <<20, 1, 97>> ELSE <<>>)
                                                \o <<IF p[i] = "O" THEN 64 ELSE 66>>])
CloseBytes(p, j) == [k \in 1..j |-> IF p[Len(p) - k + 1] = "O" THEN 65 ELSE 67]
DeepStems == UNION {{<<64>> \o OpenBytes(p) \o CloseBytes(p, j) : j \in 0..Len(p)} : p \in StemPaths}
SigmaD == << <<65>>, <<67>>, <<16, 5>>, <<20, 1, 98>> >>
=============================================================================
