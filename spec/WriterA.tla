------------------------------- MODULE WriterA -------------------------------
(***************************************************************************)
(* Layer A: what a list of write calls MEANS (properties C04, C05).        *)
(* Uses only the canonical encoder of BinsonFormat; knows nothing about    *)
(* pack buffers or error latching.                                         *)
(*                                                                         *)
(* A value call c = [op, v] contributes the token Tok(c) = <<desc, data>>  *)
(*   (descriptor piece, payload piece).  For any capacity cap:             *)
(*   - counter after call i          = S(i) = total size of calls 1..i     *)
(*   - call i returns TRUE           iff S(i) <= cap                       *)
(*   - error is RANGE                iff S(n) > cap, else NONE             *)
(*   - stored bytes: with k the first call that does not fit, the buffer   *)
(*     holds Enc[0 .. G) with G = S(k-1), and optionally also call k's     *)
(*     descriptor if that fits (both granularities are accepted); nothing  *)
(*     at or beyond the stored prefix is modified                          *)
(*   - with cap = S(n) everything succeeds and the buffer is Enc exactly   *)
(***************************************************************************)
EXTENDS BinsonFormat

ValueOps == {"ob", "oe", "ab", "ae", "t", "f", "int", "dbl", "str", "bytes", "name", "raw"}
IsValueList(calls) == \A i \in 1..Len(calls) : calls[i].op \in ValueOps

\* the two pieces of one call
Pieces(c) ==
  CASE c.op = "ob" -> <<<<64>>, <<>>>> [] c.op = "oe" -> <<<<65>>, <<>>>>
    [] c.op = "ab" -> <<<<66>>, <<>>>> [] c.op = "ae" -> <<<<67>>, <<>>>>
    [] c.op = "t"  -> <<<<68>>, <<>>>> [] c.op = "f"  -> <<<<69>>, <<>>>>
    [] c.op = "int" -> <<EncInt(c.v), <<>>>>
    [] c.op = "dbl" -> <<<<70>> \o c.v, <<>>>>
    [] c.op \in {"str", "name"} -> <<EncLen(20, Len(c.v)), c.v>>
    [] c.op = "bytes" -> <<EncLen(24, Len(c.v)), c.v>>
    [] c.op = "raw" -> <<c.v, <<>>>>
TokSize(c) == Len(Pieces(c)[1]) + Len(Pieces(c)[2])
RECURSIVE EncCalls(_,_)
EncCalls(calls, i) == IF i > Len(calls) THEN <<>> ELSE Pieces(calls[i])[1] \o Pieces(calls[i])[2] \o EncCalls(calls, i + 1)
RECURSIVE Sizes(_,_,_)
\* cumulative sizes S(1..n)
Sizes(calls, i, acc) == IF i > Len(calls) THEN <<>> ELSE <<acc + TokSize(calls[i])>> \o Sizes(calls, i + 1, acc + TokSize(calls[i]))

\* expectations for (calls, cap): [cnt, range, rets, G, L, enc]
Expect(calls, cap) ==
  LET S == Sizes(calls, 1, 0)
      n == Len(calls)
      total == IF n = 0 THEN 0 ELSE S[n]
      bad == {i \in 1..n : S[i] > cap}
      k == IF bad = {} THEN n + 1 ELSE CHOOSE i \in bad : \A j \in bad : i <= j
      G == IF k = 1 THEN 0 ELSE IF k = n + 1 THEN total ELSE S[k - 1]
      dk == IF k <= n THEN Len(Pieces(calls[k])[1]) ELSE 0
      \* the descriptor of the first call that does not fit may be stored if it fits, but only
      \* if the call has a payload piece (otherwise the descriptor IS the call)
      L == IF k <= n /\ Len(Pieces(calls[k])[2]) > 0 /\ G + dk <= cap THEN G + dk ELSE G
  IN [cnt |-> total, range |-> total > cap, rets |-> [i \in 1..n |-> S[i] <= cap],
      G |-> G, L |-> L, sizes |-> S]
=============================================================================
