------------------------------ MODULE TraceClass ------------------------------
(***************************************************************************)
(* Code -> spec for the C++ Binson class (C15): every line is one byte     *)
(* string handed to all deserialize overloads of the REAL class            *)
(* (harness/record_class.cpp): random value trees with long and NUL-       *)
(* carrying names, nesting around the wrapper's depth limit, mutated,      *)
(* truncated and extended documents.  Layer A dictates everything: the     *)
(* overloads return normally iff Parse(bytes,"O",10) accepts; the object   *)
(* then is the decoded value tree; serialize() gives the bytes back.       *)
(***************************************************************************)
EXTENDS Integers, Sequences, FiniteSets, TLC, Json, IOUtils

Tr == ndJsonDeserialize(IOEnv.TRACE)
F == INSTANCE BinsonFormat
VARIABLES l, bad, nok
vars == <<l, bad, nok>>

\* canonical dump of a value tree (the format of the harness, see MC_Class)
RECURSIVE Dump(_), DumpKids(_,_,_)
Dump(vt) ==
  CASE vt.t = "integer" -> "i" \o F!HexStr(vt.v)
    [] vt.t = "double"  -> "d" \o F!HexStr(vt.v)
    [] vt.t = "boolean" -> IF vt.v[1] = 1 THEN "b1" ELSE "b0"
    [] vt.t = "string"  -> "s" \o F!HexStr(vt.v) \o ";"
    [] vt.t = "bytes"   -> "y" \o F!HexStr(vt.v) \o ";"
    [] vt.t = "object"  -> "o{" \o DumpKids(vt.kids, 1, TRUE) \o "}"
    [] vt.t = "array"   -> "a[" \o DumpKids(vt.kids, 1, FALSE) \o "]"
DumpKids(kids, i, named) ==
  IF i > Len(kids) THEN ""
  ELSE (IF named THEN F!HexStr(kids[i].name) \o ":" ELSE "") \o Dump(kids[i].vt) \o DumpKids(kids, i + 1, named)

Init == l = 1 /\ bad = "" /\ nok = 0
Judge(ev) ==
  LET p == F!Parse(ev.buf, "O", 10)
      rets == {i \in 1..5 : ev.out[i] = 0}
  IN IF \E i \in 1..5 : ev.out[i] = 2 THEN "C15: a deserialize overload threw something that is not a std::exception"
     ELSE IF ~p.ok THEN
        (IF rets # {} THEN "C15: a deserialize overload returned normally on bytes that are not a well-formed document (overload " \o ToString(CHOOSE i \in rets : TRUE) \o ")" ELSE "")
     ELSE IF rets # 1..5 THEN "C15: a deserialize overload threw on a well-formed document (overload " \o ToString(CHOOSE i \in (1..5) \ rets : TRUE) \o ")"
     ELSE IF ev.same # 1 THEN "C15: the deserialize overloads disagree with each other"
     ELSE IF ev.dump # Dump(F!ToVT(ev.buf, p.node)) THEN "C15: the object differs from the decoded value tree"
     ELSE IF ev.ser # ev.buf THEN "C15: serialize() does not give the document back"
     ELSE IF ev.back # 1 THEN "C15: deserialize(serialize(x)) differs from x"
     ELSE ""
Next == /\ l <= Len(Tr) /\ l' = l + 1
        /\ LET m == Judge(Tr[l]) IN
           /\ bad' = m
           /\ nok' = nok + (IF F!Parse(Tr[l].buf, "O", 10).ok THEN 1 ELSE 0)
           /\ (m # "" => PrintT("TRACE-VIOLATION " \o SubSeq(m, 1, 3) \o ": line " \o ToString(l) \o ": " \o SubSeq(m, 6, Len(m))))
           /\ (l' > Len(Tr) => PrintT(<<"TRACE-SUMMARY", Len(Tr), nok', Len(Tr) - nok'>>))
Spec == Init /\ [][Next]_vars
Accepted == TLCGet("stats").diameter - 1 = Len(Tr)
=============================================================================
