SPECIFICATION Spec
CONSTANTS
 K = 3
 Alpha <- AlphaInts
 WithReset = FALSE
 AllCaps = FALSE
 EmitOn = TRUE
INVARIANTS Refines
CHECK_DEADLOCK FALSE
