--------------------------- MODULE ApToStringCore ---------------------------
(***************************************************************************)
(* C13, unbounded: the `available` bookkeeping of _binson_to_string_cb     *)
(* (ToStringImpl!Cb) over abstract token text LENGTHS, for Apalache.       *)
(* snprintf(p, avail, s) stores min(len, avail-1) characters and a NUL iff *)
(* avail > 0 and returns len.  Three shapes of a callback:                 *)
(*   Plain(len)      one snprintf                                          *)
(*   Comma(len)      a "," first (available decremented), then the token   *)
(*   Bytes(n)        "\"0x", the 2n+2 pre-check, n hex pairs and the quote,*)
(*                   every store bounded by the SAME stale available       *)
(* IndInv (maxStore <= cap) is inductive: for every token length and every *)
(* capacity nothing is stored at or beyond the capacity.                   *)
(***************************************************************************)
EXTENDS Integers
CONSTANT
  \* @type: Int;
  Cap
VARIABLES
  \* @type: Int;
  used,
  \* @type: Bool;
  full,
  \* @type: Int;
  maxStore
Max(a, b) == IF a > b THEN a ELSE b
Min(a, b) == IF a < b THEN a ELSE b
Avail(u) == IF u < Cap THEN Cap - u ELSE 0
\* 1 + highest index written by snprintf(&buffer[pos], avail, text of length len)
StoreEnd(pos, avail, len) == IF avail = 0 THEN 0 ELSE pos + Min(len, avail - 1) + 1
Init == used = 0 /\ full = FALSE /\ maxStore = 0
Plain(len) ==
  LET av == Avail(used) IN
  /\ maxStore' = Max(maxStore, StoreEnd(used, av, len))
  /\ full' = (full \/ len >= av \/ used + len > Cap)
  /\ used' = used + len
Comma(len) ==
  LET av0 == Avail(used)
      u1 == used + 1
      av1 == IF av0 > 0 THEN av0 - 1 ELSE 0 IN
  /\ maxStore' = Max(Max(maxStore, StoreEnd(used, av0, 1)), StoreEnd(u1, av1, len))
  /\ full' = (full \/ used + 1 > Cap \/ len >= av1 \/ u1 + len > Cap)
  /\ used' = u1 + len
Bytes(n) ==
  LET av0 == Avail(used)
      over1 == used + 3 > Cap
      av1 == IF over1 THEN 0 ELSE av0
      u3 == used + 3
      av2 == IF av1 >= 3 THEN av1 - 3 ELSE av1
      over2 == u3 + 2 * n + 2 > Cap
      av3 == IF over2 THEN 0 ELSE av2
      \* the last store of the hex loop / closing quote is the highest one
      lastHex == IF n > 0 THEN StoreEnd(u3 + 2 * (n - 1), av3, 2) ELSE 0
      quote == StoreEnd(u3 + 2 * n, av3, 1) IN
  /\ maxStore' = Max(Max(Max(maxStore, StoreEnd(used, av0, 3)), lastHex), quote)
  /\ full' = (full \/ over1 \/ over2 \/ 2 * n + 1 >= av3 \/ u3 + 2 * n + 1 > Cap)
  /\ used' = u3 + 2 * n + 1
Next == \E k \in Nat : Plain(k) \/ Comma(k) \/ Bytes(k)
CInit == Cap \in Nat
IndInv == used >= 0 /\ maxStore >= 0 /\ maxStore <= Cap /\ Cap >= 0 /\ (~full => (used = 0 \/ used < Cap))
IndInit == used \in Int /\ full \in BOOLEAN /\ maxStore \in Int /\ IndInv
=============================================================================
