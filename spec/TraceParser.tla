----------------------------- MODULE TraceParser -----------------------------
(***************************************************************************)
(* Code -> spec: validates an ndjson trace recorded from the REAL parser   *)
(* (harness/record_parser.c) against Layer A.  The library is              *)
(* deterministic, so the trace spec never branches: it is a fold over the  *)
(* events that carries the reference cursor and the monitors, and writes   *)
(* the first disagreement into `bad` ("Cnn: line k: what").                *)
(*                                                                         *)
(* mode  "A"  well-formed document, every call so far followed the         *)
(*            protocol: Layer A (Cursor) dictates every observable         *)
(*       "S"  document not well-formed, protocol followed (judged on the   *)
(*            recorded answers): only the final verdict is dictated (C08)  *)
(*       "U"  a call left the protocol / root left / error reported:       *)
(*            only the monitors apply (C01 spans, C09 latch, C16 work)     *)
(***************************************************************************)
EXTENDS Integers, Sequences, FiniteSets, TLC, Json, IOUtils

F == INSTANCE BinsonFormat
C == INSTANCE Cursor
E == INSTANCE Emit

Tr == ndJsonDeserialize(IOEnv.TRACE)

VARIABLES l, buf, root, maxd, pr, c, mode, stk, on, allOk, prevErr, d0, bad, nA, nS, hist, full
vars == <<l, buf, root, maxd, pr, c, mode, stk, on, allOk, prevErr, d0, bad, nA, nS, hist, full>>
\* full = <<f, lastNextFalse>>: the calls so far are a prefix of a FULL traversal (every container
\* entered, left only after next said FALSE): then a navigation disagreement is in C03's scope too
\* hist: the current traversal contained a lookup ("L") / a get_raw or to_writer ("R") - decides
\* in whose scope a later disagreement lies (same rule as harness/replay_parser.c attribute())

NoTree == [ok |-> FALSE, kind |-> "none", pos |-> 0]
Init == /\ l = 1 /\ buf = <<>> /\ root = "O" /\ maxd = 1 /\ pr = NoTree /\ c = C!Fresh /\ mode = "U"
        /\ stk = <<>> /\ on = 0 /\ allOk = TRUE /\ prevErr = 0 /\ d0 = 0 /\ bad = "" /\ nA = 0 /\ nS = 0 /\ hist = "" /\ full = <<TRUE, FALSE>>

Ev == Tr[l]
Msg(p, what) == p \o ": line " \o ToString(l) \o ": " \o what
Fail(p, what) == bad' = Msg(p, what)
Span(s) == <<s[1], s[2]>>
InBuf(s) == s = <<>> \/ (s[1] >= 0 /\ s[2] >= 0 /\ s[1] + s[2] <= Len(buf))
Zero8 == <<0, 0, 0, 0, 0, 0, 0, 0>>
Advancing == {"n", "ne", "io", "ia", "lo", "la", "f", "fe", "raw", "tw"}
TypeName(t) == CASE t = 1 -> "object" [] t = 3 -> "array" [] t = 5 -> "boolean" [] t = 6 -> "integer"
                 [] t = 7 -> "double" [] t = 8 -> "string" [] t = 9 -> "bytes" [] OTHER -> "none"

\* ---- monitors that apply to every call event (C01, C09, C16) --------------------
Monitor(ev) ==
  IF ~(InBuf(ev.nm) /\ InBuf(ev.sv) /\ InBuf(ev.yv) /\ InBuf(ev.raw)) THEN Msg("C01", "a span handed back lies outside the buffer")
  ELSE IF prevErr # 0 /\ ev.e \in Advancing /\ (ev.ret = 1 \/ ev.err2 = 0) THEN Msg("C09", "advancing call succeeded or cleared the error although an error was set")
  ELSE IF ev.err2 # 0 /\ ev.e # "gn" /\ (ev.t # 0 \/ ev.iv # Zero8 \/ ev.dv # Zero8 \/ ev.bv # 0 \/ ev.sv # <<>> \/ ev.yv # <<>>)
       THEN Msg("C09", "a getter is not neutral while an error is set")
  ELSE IF ev.e \in Advancing /\ ev.cb > ((IF ev.used >= 0 THEN ev.used ELSE ev.hi) - ev.u0) + (IF ev.e \in {"raw", "tw"} THEN 2 ELSE 1)
       THEN Msg("C16", "more token callbacks than bytes advanced over (net cursor movement)")
  ELSE ""

\* the set of properties in whose scope a Layer-A mismatch of this call lies
PropOf(op) == CASE op \in {"f", "fe"} -> "C07" [] op \in {"raw", "tw"} -> "C11"
                [] hist = "L" -> "C07" [] hist = "R" -> "C06,C11" [] OTHER -> IF full[1] THEN "C03,C06" ELSE "C06"
ValProp(p) == IF p = "C07" THEN "C03,C07" ELSE "C03"

\* ---- Layer A comparison of a hit (next / lookup returned TRUE) -------------------
HitMsg(ev, hit, inObj, p) ==
  LET nd == hit.node IN
  IF ev.t # E!TypeCode(nd.t) THEN Msg(p, "get_type differs from the element's type")
  ELSE IF inObj /\ ev.nm # <<hit.nOff, hit.nLen>> THEN Msg(ValProp(p), "name span differs")
  ELSE LET pv == ValProp(p) IN
       IF (IF nd.t = "integer" THEN ev.iv # F!SignExt8(F!Sub(buf, nd.pOff, nd.pLen)) ELSE ev.iv # Zero8) THEN Msg(pv, "get_integer differs / not neutral")
       ELSE IF (IF nd.t = "double" THEN ev.dv # F!Sub(buf, nd.pOff, 8) ELSE ev.dv # Zero8) THEN Msg(pv, "get_double differs / not neutral")
       ELSE IF (IF nd.t = "boolean" THEN ev.bv # (IF F!B(buf, nd.off) = 68 THEN 1 ELSE 0) ELSE ev.bv # 0) THEN Msg(pv, "get_boolean differs / not neutral")
       ELSE IF (IF nd.t = "string" THEN ev.sv # <<nd.pOff, nd.pLen>> ELSE ev.sv # <<>>) THEN Msg(pv, "string span differs / not neutral")
       ELSE IF (IF nd.t = "bytes" THEN ev.yv # <<nd.pOff, nd.pLen>> ELSE ev.yv # <<>>) THEN Msg(pv, "bytes span differs / not neutral")
       ELSE ""

\* ---- one event -------------------------------------------------------------------
InitEv ==
  /\ Ev.e = "I"
  /\ LET p == F!Parse(Ev.buf, Ev.root, Ev.maxd) IN
     /\ buf' = Ev.buf /\ root' = Ev.root /\ maxd' = Ev.maxd /\ pr' = p /\ c' = C!Fresh
     /\ stk' = <<>> /\ on' = 0 /\ allOk' = (Ev.ret = 1) /\ prevErr' = Ev.err /\ d0' = IF Ev.root = "A" THEN 1 ELSE 0
     /\ mode' = IF Ev.ret = 0 THEN "U" ELSE IF p.ok THEN "A" ELSE "S"
     /\ nA' = nA + (IF p.ok THEN 1 ELSE 0) /\ nS' = nS + (IF p.ok THEN 0 ELSE 1) /\ hist' = "" /\ full' = <<TRUE, FALSE>>
     /\ IF p.ok /\ Ev.ret = 0 THEN Fail("C02", "init rejects a well-formed document")
        ELSE bad' = ""

\* verify / reset: a clean start (C12); verify's verdict is Layer A's (C02)
AgainEv ==
  /\ Ev.e \in {"v", "rs"}
  /\ c' = C!Fresh /\ stk' = <<>> /\ on' = 0 /\ allOk' = (Ev.ret = 1) /\ prevErr' = Ev.err2
  /\ mode' = IF Ev.ret = 0 THEN "U" ELSE IF pr.ok THEN "A" ELSE "S"
  /\ IF Ev.e = "v" /\ (Ev.ret = 1) # pr.ok THEN Fail("C02", "verify's verdict differs from Layer A well-formedness")
     ELSE IF Ev.ret = 1 /\ Ev.err2 # 0 THEN Fail("C12", "error set after a successful verify or reset")
     ELSE bad' = IF Ev.e = "rs" /\ Ev.ret = 1 THEN "" ELSE bad      \* a successful reset is a clean start: validation resumes here
  /\ hist' = "" /\ full' = <<TRUE, FALSE>> /\ UNCHANGED <<buf, root, maxd, pr, d0, nA, nS>>

\* protocol judged on the recorded answers (mode S)
TopS == stk[Len(stk)]
AllowsS(op) ==
  CASE op = "io" -> IF stk = <<>> /\ on = 0 /\ c.mode = "fresh" THEN root = "O" ELSE on = 1
    [] op = "ia" -> IF stk = <<>> /\ on = 0 /\ c.mode = "fresh" THEN root = "A" ELSE on = 3
    [] op \in {"n", "ne"} -> stk # <<>>
    [] op = "lo" -> stk # <<>> /\ TopS = "O"
    [] op = "la" -> stk # <<>> /\ TopS = "A"
    [] op \in {"f", "fe"} -> stk # <<>> /\ TopS = "O"
    [] op \in {"raw", "tw"} -> stk # <<>> /\ on \in {1, 3}
    [] OTHER -> FALSE

\* C10: a full decode-then-encode transcription by the recorder (after a reset): on a well-formed document the
\* output must be the input, byte for byte
XcEv ==
  /\ Ev.e = "xc"
  /\ bad' = IF pr.ok /\ Ev.ret # 1 THEN Msg("C10", "decode-then-encode did not reproduce a well-formed document") ELSE bad
  /\ mode' = "U" /\ c' = C!Fresh /\ stk' = <<>> /\ on' = 0 /\ hist' = "" /\ full' = <<TRUE, FALSE>>
  /\ UNCHANGED <<buf, root, maxd, pr, allOk, prevErr, d0, nA, nS>>

CallEv ==
  /\ Ev.e \notin {"I", "v", "rs", "xc"}
  /\ LET ev == Ev
         op == ev.e
         mon == Monitor(ev)
         tree == pr.node
     IN
     /\ prevErr' = ev.err2
     /\ hist' = IF op \in {"f", "fe"} THEN "L" ELSE IF op \in {"raw", "tw"} /\ hist = "" THEN "R" ELSE hist
     /\ full' = <<full[1] /\ ~(op \in {"f", "fe", "raw", "tw", "gn"})
                           /\ ~(op \in {"lo", "la"} /\ ~full[2])
                           /\ ~(op \in {"n", "ne"} /\ mode = "A" /\ C!InFrame(c) /\ C!Top(c).on /\ C!IsCont(C!OnKid(c).node.t)),
                  op \in {"n", "ne"} /\ ev.ret = 0>>
     /\ UNCHANGED <<buf, root, maxd, pr, d0, nA, nS>>
     /\ IF mon # "" THEN bad' = mon /\ UNCHANGED <<c, mode, stk, on, allOk>>
        ELSE IF mode = "A" THEN
          LET inObj == C!InFrame(c) /\ C!Top(c).node.t = "object"
              allowed == CASE op = "io" -> C!CanEnter(c, tree, "object") [] op = "ia" -> C!CanEnter(c, tree, "array")
                           [] op \in {"n", "ne"} -> C!CanNext(c) [] op = "lo" -> C!CanLeave(c, "object") [] op = "la" -> C!CanLeave(c, "array")
                           [] op \in {"f", "fe"} -> C!CanLookup(c) [] op \in {"raw", "tw"} -> C!CanGetRaw(c) [] OTHER -> FALSE
          IN IF ~allowed THEN mode' = "U" /\ bad' = bad /\ UNCHANGED <<c, stk, on, allOk>>
             ELSE
             LET a == CASE op = "io" -> C!Enter(c, tree, "object") [] op = "ia" -> C!Enter(c, tree, "array")
                        [] op = "n" -> C!Next(c) [] op = "ne" -> C!NextEnsure(c, TypeName(ev.ty))
                        [] op \in {"lo", "la"} -> C!Leave(c)
                        [] op = "f" -> C!Lookup(c, buf, ev.a) [] op = "fe" -> C!LookupEnsure(c, buf, ev.a, TypeName(ev.ty))
                        [] op \in {"raw", "tw"} -> C!GetRaw(c)
                 p == PropOf(op)
                 wrongType == a.c.mode = "err"
                 msg == IF (ev.ret = 1) # a.ret /\ ~(wrongType /\ op = "ne") THEN Msg(p, op \o " returned " \o ToString(ev.ret) \o ", the reference cursor says " \o (IF a.ret THEN "1" ELSE "0"))
                        ELSE IF wrongType THEN (IF op = "fe" /\ ev.err2 # 7 THEN Msg("C07", "field_ensure on a value of another type must set WRONG_TYPE") ELSE "")
                        ELSE IF ev.err2 # 0 THEN Msg(p, "error raised on a well-formed document by " \o op)
                        ELSE IF ev.d - d0 # C!ObjFrames(a.c) THEN Msg(p, "get_depth does not match the number of objects entered")
                        ELSE IF a.ret /\ op \in {"n", "ne", "f", "fe"} THEN HitMsg(ev, a.hit, inObj, p)
                        ELSE IF op \in {"raw", "tw"} /\ a.ret /\ ev.raw # <<C!RawOff(a.hit), C!RawLen(a.hit)>> THEN Msg("C11", "raw span differs from the container's span")
                        ELSE IF op = "tw" /\ ~a.ret /\ (ev.wc # 0 \/ ev.we # 0) THEN Msg("C11", "to_writer on a non-container changed the writer")
                        ELSE ""
             IN /\ bad' = IF msg = "" THEN bad ELSE msg
                /\ c' = a.c
                /\ mode' = IF a.c.mode \in {"left", "err"} THEN "U" ELSE "A"
                /\ UNCHANGED <<stk, on, allOk>>
        ELSE IF mode = "S" THEN
          IF ~AllowsS(op) THEN mode' = "U" /\ bad' = bad /\ UNCHANGED <<c, stk, on, allOk>>
          ELSE LET must == op \in {"io", "ia", "lo", "la", "raw", "tw"}
                   ok2 == allOk /\ (must => ev.ret = 1)
                   stk2 == IF op \in {"io", "ia"} /\ ev.ret = 1 THEN Append(stk, IF op = "io" THEN "O" ELSE "A")
                           ELSE IF op \in {"lo", "la"} /\ ev.ret = 1 THEN SubSeq(stk, 1, Len(stk) - 1) ELSE stk
                   left == op \in {"lo", "la"} /\ ev.ret = 1 /\ Len(stk) = 1
               IN /\ allOk' = ok2 /\ stk' = stk2
                  /\ on' = IF op \in {"n", "ne", "f", "fe"} /\ ev.ret = 1 THEN ev.t ELSE 0
                  /\ c' = [c EXCEPT !.mode = "in"]
                  /\ mode' = IF left \/ ~ok2 \/ ev.err2 # 0 THEN "U" ELSE "S"
                  /\ bad' = IF left /\ ok2 /\ ev.err2 = 0
                            THEN Msg("C08", "a complete traversal of a document that is not well-formed finished without any error")
                            ELSE bad
        ELSE bad' = bad /\ UNCHANGED <<c, mode, stk, on, allOk>>

\* After a disagreement the rest of that execution is skipped (nothing is specified about a parser that has
\* already deviated) and validation resumes at the next init (or successful reset) event, so one trace can report
\* several findings.
Next == /\ l <= Len(Tr) /\ l' = l + 1
        /\ IF bad # "" /\ Ev.e # "I" /\ ~(Ev.e = "rs" /\ Ev.ret = 1)
           THEN /\ UNCHANGED <<buf, root, maxd, pr, c, mode, stk, on, allOk, prevErr, d0, bad, nA, nS, hist, full>>
                \* a transcription starts with a reset of its own: it is specified whatever went wrong before it
                /\ (Ev.e = "xc" /\ pr.ok /\ Ev.ret # 1 =>
                      PrintT("TRACE-VIOLATION " \o Msg("C10", "decode-then-encode did not reproduce a well-formed document")))
           ELSE (InitEv \/ AgainEv \/ XcEv \/ CallEv) /\ (bad' # "" => PrintT("TRACE-VIOLATION " \o bad'))
        /\ (l' > Len(Tr) => PrintT(<<"TRACE-SUMMARY", Len(Tr), nA', nS'>>))
Spec == Init /\ [][Next]_vars

\* every line consumed (the driver looks for TRACE-VIOLATION first)
Accepted == TLCGet("stats").diameter - 1 = Len(Tr)
=============================================================================
