SPECIFICATION Spec
CONSTANTS
 MaxNodes = 3
 MaxNest = 3
 Vals <- ValsText
 DocNames <- NamesAB
 Roots <- RootsOA
 AllCaps = TRUE
 WithInvalid = TRUE
 Pres <- Pres0
 EmitOn = TRUE
INVARIANTS Refines
CHECK_DEADLOCK FALSE
