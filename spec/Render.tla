------------------------------- MODULE Render -------------------------------
(***************************************************************************)
(* Layer A: the reference text of a document (C14) and the size protocol   *)
(* of binson_parser_to_string (C13).  Text is a sequence of byte values.   *)
(*   object  {"name":value,...}      array  [v,...]                        *)
(*   exactly one comma between siblings and none elsewhere                 *)
(*   integer decimal (computed here by long division, not by the platform) *)
(*   double  printf %f  -- the one function TLA+ cannot compute: supplied  *)
(*           as the table FmtF (8 IEEE bytes -> text), generated from the  *)
(*           platform's snprintf by a program that does not link the       *)
(*           library                                                       *)
(*   boolean true/false     bytes "0x<lowercase hex>"                      *)
(*   names and strings quoted verbatim up to the first 0x00 byte           *)
(***************************************************************************)
EXTENDS BinsonFormat
CONSTANT FmtF(_)      \* printf %f text of 8 IEEE bytes (FmtTable for the models, a trace-supplied table for traces)

Chr(s) == CASE s = "{" -> 123 [] s = "}" -> 125 [] s = "[" -> 91 [] s = "]" -> 93 [] s = "," -> 44
            [] s = ":" -> 58 [] s = "q" -> 34 [] s = "-" -> 45 [] s = "0" -> 48 [] s = "x" -> 120
TrueTxt == <<116, 114, 117, 101>>
FalseTxt == <<102, 97, 108, 115, 101>>
HexChr(d) == IF d < 10 THEN 48 + d ELSE 87 + d
HexTxt(bs) == [k \in 1..(2 * Len(bs)) |-> LET b == bs[(k + 1) \div 2] IN IF k % 2 = 1 THEN HexChr(b \div 16) ELSE HexChr(b % 16)]
UptoNul(bs) == LET z == {i \in 1..Len(bs) : bs[i] = 0} IN
               IF z = {} THEN bs ELSE SubSeq(bs, 1, (CHOOSE i \in z : \A j \in z : i <= j) - 1)
Quoted(bs) == <<34>> \o UptoNul(bs) \o <<34>>

\* ---- decimal text of an 8-byte little-endian two's complement integer ------
IsZero(be) == \A i \in 1..Len(be) : be[i] = 0
RECURSIVE Div10(_,_,_)
\* long division of a big-endian base-256 number by 10: [q (big endian), r]
Div10(be, i, r) ==
  IF i > Len(be) THEN [q |-> <<>>, r |-> r]
  ELSE LET cur == r * 256 + be[i]
           rest == Div10(be, i + 1, cur % 10) IN
       [q |-> <<cur \div 10>> \o rest.q, r |-> rest.r]
RECURSIVE Digits(_)
Digits(be) == IF IsZero(be) THEN <<>> ELSE LET d == Div10(be, 1, 0) IN Digits(d.q) \o <<48 + d.r>>
Rev(s) == [i \in 1..Len(s) |-> s[Len(s) + 1 - i]]
RECURSIVE Neg(_,_,_)
\* two's complement negation of little-endian bytes
Neg(le, i, carry) ==
  IF i > Len(le) THEN <<>>
  ELSE LET v == (255 - le[i]) + carry IN <<v % 256>> \o Neg(le, i + 1, v \div 256)
Dec64(v8) ==
  IF IsZero(v8) THEN <<48>>
  ELSE IF v8[8] >= 128 THEN <<45>> \o Digits(Rev(Neg(v8, 1, 1)))
  ELSE Digits(Rev(v8))

RECURSIVE RenderVT(_), JoinKids(_,_,_)
RenderVT(vt) ==
  CASE vt.t = "object"  -> <<123>> \o JoinKids(vt.kids, 1, TRUE) \o <<125>>
    [] vt.t = "array"   -> <<91>> \o JoinKids(vt.kids, 1, FALSE) \o <<93>>
    [] vt.t = "integer" -> Dec64(vt.v)
    [] vt.t = "double"  -> FmtF(vt.v)
    [] vt.t = "boolean" -> IF vt.v[1] = 1 THEN TrueTxt ELSE FalseTxt
    [] vt.t = "string"  -> Quoted(vt.v)
    [] vt.t = "bytes"   -> <<34, 48, 120>> \o HexTxt(vt.v) \o <<34>>
JoinKids(kids, i, named) ==
  IF i > Len(kids) THEN <<>>
  ELSE (IF i > 1 THEN <<44>> ELSE <<>>) \o (IF named THEN Quoted(kids[i].name) \o <<58>> ELSE <<>>)
       \o RenderVT(kids[i].vt) \o JoinKids(kids, i + 1, named)

\* reference text of a well-formed document
Render(buf, root, maxd) == RenderVT(ToVT(buf, Parse(buf, root, maxd).node))

\* size protocol: [ret, size, text]; cap = -1 stands for a NULL buffer
ToStringA(buf, root, maxd, cap) ==
  LET p == Parse(buf, root, maxd) IN
  IF ~p.ok THEN [ret |-> FALSE, sizeKnown |-> FALSE, size |-> 0, text |-> <<>>]
  ELSE LET txt == RenderVT(ToVT(buf, p.node))
           need == Len(txt) + 1 IN
       IF cap < need THEN [ret |-> FALSE, sizeKnown |-> TRUE, size |-> need, text |-> txt]
       ELSE [ret |-> TRUE, sizeKnown |-> TRUE, size |-> need - 1, text |-> txt]
=============================================================================
