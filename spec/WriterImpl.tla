----------------------------- MODULE WriterImpl -----------------------------
(***************************************************************************)
(* Layer I: src/binson_writer.c, one operator per C function.              *)
(* W = [cap, used, err, mem, hasBuf]                                       *)
(*   mem   the bytes the writer has stored in buffer[0 .. Len(mem)-1]      *)
(*         (everything beyond is untouched caller memory)                  *)
(* A call c is a record [op, v]:                                           *)
(*   ob oe ab ae t f      structure tokens and booleans                    *)
(*   int / dbl            v = 8 little-endian bytes (int64 / IEEE double)  *)
(*   str bytes name raw   v = payload bytes                                *)
(*   nameNULL rawNULL     NULL pointer arguments                           *)
(*   reset verify                                                          *)
(***************************************************************************)
EXTENDS Integers, Sequences, FiniteSets, TLC

NONE == "NONE"
Max(a, b) == IF a > b THEN a ELSE b

WInit(cap, hasBuf) == [cap |-> cap, used |-> 0, err |-> IF hasBuf THEN NONE ELSE "NULL", mem |-> <<>>, hasBuf |-> hasBuf]

Overlay(mem, pos, data) ==
  [i \in 1..Max(Len(mem), pos + Len(data)) |-> IF i > pos /\ i <= pos + Len(data) THEN data[i - pos] ELSE mem[i]]

\* _write: overflow test, NULL test, store only while no error, ALWAYS count.
\* (lengths above INT32_MAX -> FORMAT are outside TLC's 32-bit integers; that path is
\* exercised by the recorder only)
Write(W, data) ==
  LET c == W.used + Len(data)
      e1 == IF c > W.cap THEN "RANGE" ELSE W.err
      e2 == IF ~W.hasBuf THEN "NULL" ELSE e1
      m2 == IF e2 = NONE THEN Overlay(W.mem, W.used, data) ELSE W.mem
  IN [W EXCEPT !.err = e2, !.mem = m2, !.used = c]
Ok(W) == W.err = NONE

\* _int_pack_size: width chosen by range tests on the int64 (decided bytewise here)
FitsIn(bs, k) == LET s == IF bs[k] >= 128 THEN 255 ELSE 0 IN \A i \in (k+1)..8 : bs[i] = s
PackInt(base, v8) ==
  IF FitsIn(v8, 1) THEN <<base>> \o SubSeq(v8, 1, 1)
  ELSE IF FitsIn(v8, 2) THEN <<base + 1>> \o SubSeq(v8, 1, 2)
  ELSE IF FitsIn(v8, 4) THEN <<base + 2>> \o SubSeq(v8, 1, 4)
  ELSE <<base + 3>> \o v8
RECURSIVE LE8(_,_)
LE8(n, k) == IF k = 0 THEN <<>> ELSE <<n % 256>> \o LE8(n \div 256, k - 1)
Len8(n) == LE8(n, 4) \o <<0, 0, 0, 0>>          \* (int64_t) bsize for bsize < 2^31

\* _write_token for string/bytes: descriptor, then payload if any; result = last _write
Blob(W, base, bs) ==
  LET W1 == Write(W, PackInt(base, Len8(Len(bs)))) IN
  IF Len(bs) > 0 THEN Write(W1, bs) ELSE W1

\* one public call: returns [W, ret]
Call(W, c) ==
  LET Rw(X) == [W |-> X, ret |-> Ok(X)] IN
  CASE c.op = "ob" -> Rw(Write(W, <<64>>))
    [] c.op = "oe" -> Rw(Write(W, <<65>>))
    [] c.op = "ab" -> Rw(Write(W, <<66>>))
    [] c.op = "ae" -> Rw(Write(W, <<67>>))
    [] c.op = "t"  -> Rw(Write(W, <<68>>))
    [] c.op = "f"  -> Rw(Write(W, <<69>>))
    [] c.op = "int" -> Rw(Write(W, PackInt(16, c.v)))
    [] c.op = "dbl" -> Rw(Write(W, <<70>> \o c.v))
    [] c.op \in {"str", "name"} -> Rw(Blob(W, 20, c.v))
    [] c.op = "bytes" -> Rw(Blob(W, 24, c.v))
    [] c.op = "raw" -> Rw(Write(W, c.v))
    [] c.op = "nameNULL" -> [W |-> [W EXCEPT !.err = "NULL"], ret |-> FALSE]
    [] c.op = "rawNULL"  -> [W |-> [W EXCEPT !.err = "NULL"], ret |-> FALSE]
    [] c.op = "reset" ->
         IF ~W.hasBuf THEN [W |-> [W EXCEPT !.err = "NULL"], ret |-> FALSE]
         ELSE IF W.cap < 2 THEN [W |-> [W EXCEPT !.err = "RANGE"], ret |-> FALSE]
         ELSE [W |-> [W EXCEPT !.used = 0, !.err = NONE], ret |-> TRUE]

RECURSIVE Run(_,_,_)
\* folds a call list; returns [W, rets, useds]
Run(W, calls, i) ==
  IF i > Len(calls) THEN [W |-> W, rets |-> <<>>, useds |-> <<>>]
  ELSE LET r == Call(W, calls[i])
           t == Run(r.W, calls, i + 1) IN
       [W |-> t.W, rets |-> <<r.ret>> \o t.rets, useds |-> <<r.W.used>> \o t.useds]
=============================================================================
