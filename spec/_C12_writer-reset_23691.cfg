SPECIFICATION Spec
CONSTANTS
 K = 2
 Alpha <- AlphaQ
 WithReset = TRUE
 AllCaps = TRUE
 EmitOn = TRUE
INVARIANTS Refines
CHECK_DEADLOCK FALSE
