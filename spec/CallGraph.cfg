SPECIFICATION Spec
INVARIANTS NoRecursion NoAllocator OnlyKnownExterns NoDynamicStack StackBound
CHECK_DEADLOCK FALSE
