SPECIFICATION Spec
CONSTANTS
 K = 2
 MaxDs <- MaxDs123
 Sigma <- SigmaFull
 Deep = FALSE
 EmitOn = FALSE
INVARIANTS Agree DepthCode
CHECK_DEADLOCK FALSE
