---------------------------- MODULE ApParserCore ----------------------------
(***************************************************************************)
(* C01, unbounded: the bounds arithmetic every read of the parser goes     *)
(* through (_check_boundary / _consume of binson_parser.c), over size_t    *)
(* modelled as naturals modulo M (M = 2^64 in the code; ANY modulus here), *)
(* for Apalache.                                                           *)
(*   used - buffer_used        size - buffer_size                           *)
(*   off, len - the span (bptr - buffer, bsize) handed out by the last      *)
(*              successful _consume                                         *)
(*   err  - BINSON_ERROR_RANGE has been raised                              *)
(* A requested length n is ANY value of size_t (it comes from the input:    *)
(* a decoded length prefix, possibly hostile).  IndInv is inductive, hence  *)
(* for every buffer size, every position and every sequence of requested    *)
(* lengths: the cursor never passes the end of the buffer and every span    *)
(* handed out lies inside it - including when used + n wraps around.        *)
(***************************************************************************)
EXTENDS Integers
CONSTANTS
  \* @type: Int;
  M,
  \* @type: Int;
  Size
VARIABLES
  \* @type: Int;
  used,
  \* @type: Int;
  off,
  \* @type: Int;
  len,
  \* @type: Bool;
  err
Init == used = 0 /\ off = 0 /\ len = 0 /\ err = FALSE
\* _check_boundary(a, b, max): c = a + b in size_t; false if c > max, false if c < a (wrapped), else true
CheckBoundary(a, b, max) ==
  LET c == (a + b) % M IN ~(c > max) /\ ~(c < a)
\* _consume(parser, data, n, peek)
Consume(n, peek) ==
  IF ~CheckBoundary(used, n, Size)
  THEN err' = TRUE /\ UNCHANGED <<used, off, len>>
  ELSE /\ off' = used /\ len' = n
       /\ used' = IF peek THEN used ELSE (used + n) % M
       /\ err' = err
Next == \E n \in Nat : \E peek \in BOOLEAN : n < M /\ Consume(n, peek)
CInit == M \in Nat /\ M >= 2 /\ Size \in Nat /\ Size < M
IndInv == /\ M >= 2 /\ Size >= 0 /\ Size < M
          /\ used >= 0 /\ used <= Size
          /\ off >= 0 /\ len >= 0 /\ off + len <= Size
IndInit == used \in Int /\ off \in Int /\ len \in Int /\ err \in BOOLEAN /\ IndInv
=============================================================================
