SPECIFICATION Spec
CONSTANTS
 K = 3
 MaxD = 2
 MaxCalls = 3
 Sigma <- SigmaM
 Names <- NamesM
INVARIANTS Work NoOob
PROPERTIES Terminates Progress
CHECK_DEADLOCK FALSE
