------------------------------- MODULE Bytes -------------------------------
(***************************************************************************)
(* Layer A helpers.  A byte is a natural 0..255; every multi-byte quantity *)
(* is a sequence of bytes (little endian), so TLC's 32-bit integers never  *)
(* limit what can be expressed.  Nothing here is shared with Layer I       *)
(* (ParserImpl / WriterImpl carry their own, differently written, copies). *)
(***************************************************************************)
EXTENDS Integers, Sequences, FiniteSets, TLC

B(buf, off) == buf[off + 1]                       \* byte at 0-based offset
Sub(buf, off, n) == [i \in 1..n |-> buf[off + i]] \* n bytes from 0-based offset

RECURSIVE UValAt(_,_,_)
\* unsigned value of n (<= 3) little-endian bytes at off
UValAt(buf, off, n) == IF n = 0 THEN 0 ELSE B(buf, off) + 256 * UValAt(buf, off + 1, n - 1)

\* signed value of n \in {1,2,4} little-endian bytes at off (fits TLC ints)
SValAt(buf, off, n) ==
  IF n = 4 THEN (LET lo == UValAt(buf, off, 3)
                     hi == B(buf, off + 3)
                 IN IF hi >= 128 THEN (hi - 256) * 16777216 + lo ELSE hi * 16777216 + lo)
  ELSE LET u == UValAt(buf, off, n) IN
       IF B(buf, off + n - 1) >= 128 THEN u - 2^(8*n) ELSE u

\* shortest-form rule, defined NUMERICALLY (Layer I decides it bytewise)
MinimalAt(buf, off, n) ==
  CASE n = 1 -> TRUE
    [] n = 2 -> LET v == SValAt(buf, off, 2) IN v < -128 \/ v > 127
    [] n = 4 -> LET v == SValAt(buf, off, 4) IN v < -32768 \/ v > 32767
    [] n = 8 -> LET hi  == SValAt(buf, off + 4, 4)      \* high word
                    top == B(buf, off + 3)              \* sign byte of low word
                IN ~((hi = 0 /\ top < 128) \/ (hi = -1 /\ top >= 128))
    [] OTHER -> FALSE

\* 8-byte two's complement image of a w-byte little-endian integer
SignExt8(bs) ==
  LET n == Len(bs)
      fill == IF bs[n] >= 128 THEN 255 ELSE 0
  IN [i \in 1..8 |-> IF i <= n THEN bs[i] ELSE fill]

RECURSIVE CmpAt(_,_,_,_,_,_)
\* unsigned bytewise compare of span (ao,al) of a with span (bo,bl) of b: -1/0/1
\* shorter-is-smaller on a common prefix.  Equal blocks of 256 bytes are skipped with one
\* sequence comparison, so that names of 32768+ bytes (recorded traces) do not need a
\* recursion as deep as the name is long.
CmpAt(a, ao, al, b, bo, bl) ==
  IF al = 0 /\ bl = 0 THEN 0
  ELSE IF al = 0 THEN -1
  ELSE IF bl = 0 THEN 1
  ELSE IF al >= 256 /\ bl >= 256 /\ SubSeq(a, ao + 1, ao + 256) = SubSeq(b, bo + 1, bo + 256)
       THEN CmpAt(a, ao + 256, al - 256, b, bo + 256, bl - 256)
  ELSE IF B(a, ao) < B(b, bo) THEN -1
  ELSE IF B(a, ao) > B(b, bo) THEN 1
  ELSE CmpAt(a, ao + 1, al - 1, b, bo + 1, bl - 1)
CmpBytes(a, b) == CmpAt(a, 0, Len(a), b, 0, Len(b))

\* little-endian bytes of a natural n < 2^31 in w bytes
RECURSIVE LEBytes(_,_)
LEBytes(n, w) == IF w = 0 THEN <<>> ELSE <<n % 256>> \o LEBytes(n \div 256, w - 1)

RECURSIVE Flatten(_)
Flatten(ss) == IF ss = <<>> THEN <<>> ELSE Head(ss) \o Flatten(Tail(ss))

HexDigit(d) == SubSeq("0123456789abcdef", d + 1, d + 1)
Hex2(b) == HexDigit(b \div 16) \o HexDigit(b % 16)
RECURSIVE HexStr(_)
HexStr(bs) == IF bs = <<>> THEN "" ELSE Hex2(Head(bs)) \o HexStr(Tail(bs))
=============================================================================
