---------------------------- MODULE TraceToString ----------------------------
(***************************************************************************)
(* Code -> spec for binson_parser_to_string / binson_parser_print: every   *)
(* line is one document recorded from the REAL library with a sweep of     *)
(* capacities (harness/record_tostring.c): long byte strings, 300-digit    *)
(* doubles, deep nesting, mutated documents.  Layer A (Render, ToStringA)  *)
(* dictates result, *size and text for every capacity and the print output.*)
(* %f texts come from the table logged with each document (produced by the *)
(* recorder with snprintf directly, not through the library).              *)
(***************************************************************************)
EXTENDS Integers, Sequences, FiniteSets, TLC, Json, IOUtils

Tr == ndJsonDeserialize(IOEnv.TRACE)
VARIABLES l, bad, nok
vars == <<l, bad, nok>>
\* the %f table of the current line
Lookup(tab, v8) == LET hits == {i \in 1..Len(tab) : tab[i][1] = v8} IN IF hits = {} THEN <<63>> ELSE tab[CHOOSE i \in hits : TRUE][2]
CurFmt(v8) == Lookup(Tr[l].fmt, v8)
R == INSTANCE Render WITH FmtF <- CurFmt

Init == l = 1 /\ bad = "" /\ nok = 0
Judge(ev) ==
  LET p == R!Parse(ev.buf, ev.root, ev.maxd) IN
  IF ~p.ok THEN
     IF \E i \in 1..Len(ev.runs) : ev.runs[i].ret = 1 THEN "C13: to_string returned true for a document that is not well-formed"
     ELSE IF ev.pret = 1 THEN "C14: print returned true for a document that is not well-formed"
     ELSE ""
  ELSE
  LET txt == R!RenderVT(R!ToVT(ev.buf, p.node))
      need == Len(txt) + 1
      RunMsg(rn) ==
        IF rn.same # 1 THEN "C13: result depends on the previous content of the text buffer"
        ELSE IF rn.hw > (IF rn.cap < 0 THEN 0 ELSE rn.cap) THEN "C13: stored at or beyond the capacity"
        ELSE IF (rn.ret = 1) # (rn.cap >= ev.need) THEN "C13: success must be exactly 'capacity >= size reported by the NULL query'"
        ELSE IF rn.ret = 0 /\ rn.size # ev.need THEN "C13: *size differs between capacities"
        ELSE IF rn.ret = 1 /\ (rn.size # ev.need - 1 \/ Len(rn.text) # rn.size + 1 \/ rn.text[rn.size + 1] # 0) THEN "C13: *size / terminator wrong on success"
        ELSE IF rn.ret = 1 /\ SubSeq(rn.text, 1, rn.size) # txt THEN "C14: text differs from the reference rendering"
        ELSE ""
      bads == {i \in 1..Len(ev.runs) : RunMsg(ev.runs[i]) # ""}
  IN IF ev.r0 = 1 THEN "C13: to_string(NULL) returned true"
     ELSE IF ev.need # need THEN "C14: required size differs from the reference rendering's length + 1"
     ELSE IF bads # {} THEN RunMsg(ev.runs[CHOOSE i \in bads : \A j \in bads : i <= j])
     ELSE IF ev.pret # 1 \/ ev.print # txt THEN "C14: print output differs from the reference rendering"
     ELSE ""
\* every line is an independent execution: validation continues after a disagreement
Next == /\ l <= Len(Tr) /\ l' = l + 1
        /\ LET m == Judge(Tr[l]) IN
           /\ bad' = m
           /\ nok' = nok + (IF R!Parse(Tr[l].buf, Tr[l].root, Tr[l].maxd).ok THEN 1 ELSE 0)
           /\ (m # "" => PrintT("TRACE-VIOLATION " \o SubSeq(m, 1, 3) \o ": line " \o ToString(l) \o ": " \o SubSeq(m, 6, Len(m))))
           /\ (l' > Len(Tr) => PrintT(<<"TRACE-SUMMARY", Len(Tr), nok', Len(Tr) - nok'>>))
Spec == Init /\ [][Next]_vars
Accepted == TLCGet("stats").diameter - 1 = Len(Tr)
=============================================================================
