----------------------------- MODULE MC_ToString -----------------------------
(***************************************************************************)
(* C13 / C14: every well-formed document the builder can produce within    *)
(* the bounds (all combinations of empty / non-empty objects and arrays as *)
(* first, middle and last sibling; values whose text has many lengths) x   *)
(* EVERY capacity -1 (NULL), 0 .. need+2, so that the cut falls before,    *)
(* inside and after every token, hex pair, comma and the terminator.       *)
(* Layer I (ToStringImpl driven by ParserImpl's callback events) against   *)
(* Layer A (Render / ToStringA).  One behaviour per (document, capacity).  *)
(***************************************************************************)
EXTENDS Integers, Sequences, FiniteSets, TLC, FmtTable
CONSTANTS MaxNodes, MaxNest, Vals, DocNames, Roots, AllCaps, WithInvalid, Pres, EmitOn

F  == INSTANCE BinsonFormat
R  == INSTANCE Render WITH FmtF <- FmtF
PI == INSTANCE ParserImpl
TS == INSTANCE ToStringImpl WITH DecText <- R!Dec64, FmtF <- FmtF

VARIABLES buf, bstk, nodes, fin, bad
vars == <<buf, bstk, nodes, fin, bad>>
ParserMaxD == 6

Init == /\ \E r \in Roots : buf = <<IF r = "O" THEN 64 ELSE 66>> /\ bstk = <<[kind |-> r, last |-> 0]>>
        /\ nodes = 0 /\ fin = "no" /\ bad = ""
BTop == bstk[Len(bstk)]
Pick == IF BTop.kind = "O" THEN (BTop.last + 1)..Len(DocNames) ELSE {0}
PreB(i) == IF i = 0 THEN <<>> ELSE F!EncStr(DocNames[i])
Bump(i) == IF i = 0 THEN bstk ELSE [bstk EXCEPT ![Len(bstk)].last = i]
Build ==
  /\ fin = "no" /\ Len(bstk) > 0
  /\ \/ /\ nodes < MaxNodes
        /\ \E i \in Pick :
             \/ \E v \in 1..Len(Vals) : buf' = buf \o PreB(i) \o Vals[v] /\ bstk' = Bump(i)
             \/ /\ Len(bstk) < MaxNest
                /\ \E k \in {"O", "A"} :
                     /\ buf' = buf \o PreB(i) \o <<IF k = "O" THEN 64 ELSE 66>>
                     /\ bstk' = Append(Bump(i), [kind |-> k, last |-> 0])
        /\ nodes' = nodes + 1
     \/ /\ buf' = buf \o <<IF BTop.kind = "O" THEN 65 ELSE 67>>
        /\ bstk' = SubSeq(bstk, 1, Len(bstk) - 1) /\ nodes' = nodes
  /\ UNCHANGED <<fin, bad>>

RootKind == IF buf[1] = 64 THEN "O" ELSE "A"
Hx(bs) == F!HexStr(bs)
CapStr(cap) == IF cap < 0 THEN "N" ELSE ToString(cap)

\* a double outside the %f table (only mutated documents can contain one): text unknown
RECURSIVE Known(_)
Known(vt) == IF vt.t = "double" THEN vt.v \in FmtKnown
             ELSE \A i \in 1..Len(vt.kids) : Known(vt.kids[i].vt)

\* one (document, capacity) behaviour
\* pre: what the parser object was used for before the call (to_string is verify-based, so it must not matter):
\*   0 nothing, 1 get_name on the fresh parser (sets the STATE error), 2 root entered and one next()
Eval(doc, cap, pre) ==
  LET pz == F!Parse(doc, RootKind, ParserMaxD)
      known == ~pz.ok \/ Known(F!ToVT(doc, pz.node))
      i0 == PI!InitP(RootKind, doc, ParserMaxD)
      Ppre == IF ~i0.ok \/ pre = 0 THEN i0.P
              ELSE IF pre = 1 THEN PI!GetName(i0.P).P
              ELSE PI!NextP((IF RootKind = "O" THEN PI!GoIntoObject(i0.P, doc) ELSE PI!GoIntoArray(i0.P, doc)).P, doc).P
      vr == IF i0.ok THEN PI!Verify(Ppre, doc) ELSE [ret |-> FALSE, evs |-> <<>>]
      im == TS!ToStr(vr, doc, cap)
      a  == R!ToStringA(doc, RootKind, ParserMaxD, cap)
      c  == IF cap < 0 THEN 0 ELSE cap
      ok == ~known \/
            /\ im.ret = a.ret
            /\ a.sizeKnown => im.size = a.size
            /\ im.maxStore <= c                                        \* C13: nothing at or beyond the capacity
            /\ a.ret => SubSeq(im.mem, 1, a.size + 1) = a.text \o <<0>>   \* text followed by NUL
            /\ a.sizeKnown => TS!PrintRun(0, vr.evs, 1, doc) = a.text   \* C14: print, byte for byte
      line == "TBEH " \o RootKind \o " " \o ToString(ParserMaxD) \o " " \o Hx(doc) \o " | cap=" \o CapStr(cap) \o " pre=" \o ToString(pre)
              \o " | ret=" \o (IF a.ret THEN "1" ELSE "0") \o " size=" \o (IF ~known THEN "u" ELSE IF a.sizeKnown THEN ToString(a.size) ELSE "x")
              \o " text=" \o (IF ~known THEN "u" ELSE IF a.sizeKnown THEN Hx(a.text) ELSE "x")
              \o " ms=" \o (IF known /\ a.sizeKnown THEN ToString(im.maxStore) ELSE "x")
  IN [ok |-> ok, line |-> line]

Need(doc) == LET a == R!ToStringA(doc, RootKind, ParserMaxD, -1) IN IF a.sizeKnown THEN a.size ELSE 3
Caps(doc) == IF AllCaps THEN (-1)..(Need(doc) + 2) ELSE {-1, 0, Need(doc) - 1, Need(doc)}
Variants == {"ok"} \cup (IF WithInvalid THEN {"trunc", "trail"} ELSE {})
Mut(v) == CASE v = "ok" -> buf
            [] v = "trunc" -> SubSeq(buf, 1, Len(buf) - 2) \o <<buf[Len(buf)]>>     \* drop the byte before the root END
            [] v = "trail" -> SubSeq(buf, 1, Len(buf) - 1) \o <<0, buf[Len(buf)]>>  \* junk byte before the root END
Finish ==
  /\ fin = "no" /\ Len(bstk) = 0
  /\ \E v \in Variants : \E cap \in Caps(Mut(v)) : \E pre \in Pres :
       LET ev == Eval(Mut(v), cap, pre) IN
       /\ fin' = v \o CapStr(cap) \o ToString(pre)
       /\ bad' = IF ev.ok THEN "" ELSE "Layer I deviates from Layer A: " \o ev.line
       /\ (EmitOn => PrintT(ev.line))
  /\ UNCHANGED <<buf, bstk, nodes>>
Next == Build \/ Finish
Spec == Init /\ [][Next]_vars
Refines == bad = ""

\* ---------- constants -----------------------------------------------------------
ValsText == << <<16, 5>>, <<17, 133, 255>>, <<68>>, <<24, 0>>, <<24, 1, 171>>, <<24, 2, 1, 239>>, <<20, 0>>, <<20, 2, 104, 105>> >>
ValsWide == << <<16, 0>>, <<19, 0, 0, 0, 0, 0, 0, 0, 128>>, <<19, 255, 255, 255, 255, 255, 255, 255, 127>>, <<18, 0, 0, 0, 128>>, <<69>>,
               <<70, 0, 0, 0, 0, 0, 0, 240, 63>>, <<70, 0, 0, 0, 0, 0, 0, 0, 128>>, <<70, 160, 200, 235, 133, 243, 204, 225, 127>>,
               <<70, 1, 0, 0, 0, 0, 0, 248, 127>>, <<70, 0, 0, 0, 0, 0, 0, 240, 255>>, <<70, 154, 153, 153, 153, 153, 153, 185, 63>>,
               <<20, 3, 97, 0, 98>>, <<20, 2, 195, 169>>, <<24, 3, 0, 127, 255>> >>
ValsOne == << <<16, 5>> >>
Pres0 == {0}
Pres012 == {0, 1, 2}
NamesAB == << <<97>>, <<98>>, <<99>> >>
NamesOdd == << <<>>, <<97, 0, 98>>, <<195, 169>> >>
RootsOA == {"O", "A"}
=============================================================================
