SPECIFICATION Spec
CONSTANTS
 K = 2
 MaxCalls = 3
 MaxDs <- MaxDs12
 Sigma <- SigmaTok
 Names <- NamesH
 Fills <- FillsQ
 EmitOn = FALSE
 LookupsAnywhere = FALSE
VIEW View
INVARIANTS NoOob CursorInside Latch NeutralWhenErr FreshAfterInit Work WorkLookup
CHECK_DEADLOCK FALSE
