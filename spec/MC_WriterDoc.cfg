SPECIFICATION Spec
CONSTANTS
 MaxNodes = 4
 MaxNest = 3
 ValCalls <- ValsDoc1
 DocNames <- NamesEAB
 AllCaps = FALSE
 EmitOn = FALSE
INVARIANTS Refines WellFormed
CHECK_DEADLOCK FALSE
