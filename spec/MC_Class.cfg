SPECIFICATION Spec
CONSTANTS
 K = 3
 Sigma <- SigmaC
 Families = TRUE
 EmitOn = FALSE
INVARIANTS Agree SameTree RoundTrip
CHECK_DEADLOCK FALSE
