------------------------------ MODULE ClassImpl ------------------------------
(***************************************************************************)
(* Layer I: src/binson.cpp as call scripts over ParserImpl / WriterImpl.   *)
(* Outcome of a deserialize overload: [ok |-> TRUE, vt] (returns normally) *)
(* or [ok |-> FALSE] (throws std::runtime_error).  The model contains the  *)
(* fix for D5/D6: the vector overload delegates to the pointer overload    *)
(* (which checks init and every step).                                     *)
(* std::map<std::string, BinsonValue> is a function from byte strings      *)
(* iterated in std::string order, which is unsigned bytewise with          *)
(* shorter-is-smaller: the same order as Binson field names.               *)
(***************************************************************************)
EXTENDS Integers, Sequences, FiniteSets, TLC

PI == INSTANCE ParserImpl
WI == INSTANCE WriterImpl

Throw == [ok |-> FALSE]
NONE == "NONE"

\* m_items[key] = value : insert keeping std::string order, replacing an equal key
RECURSIVE MapPut(_,_,_)
MapPut(kids, k, i) ==
  IF i > Len(kids) THEN Append(kids, k)
  ELSE LET c == PI!CmpSeq(k.name, kids[i].name) IN
       IF c = 0 THEN [kids EXCEPT ![i] = k]
       ELSE IF c < 0 THEN SubSeq(kids, 1, i - 1) \o <<k>> \o SubSeq(kids, i, Len(kids))
       ELSE MapPut(kids, k, i + 1)

RECURSIVE Items(_,_,_), Item(_,_), Elems(_,_,_)
\* Binson::deseralizeItems
Items(P, buf, acc) ==
  LET n == PI!NextP(P, buf) IN
  IF ~n.ret THEN (IF n.P.err = NONE THEN [ok |-> TRUE, P |-> n.P, kids |-> acc] ELSE Throw)
  ELSE LET nm == PI!GetName(n.P) IN
       IF nm.P.err # NONE THEN Throw                       \* CheckParserState
       ELSE IF ~nm.ok THEN Throw                           \* "buf is null"
       ELSE LET it == Item(nm.P, buf) IN
            IF ~it.ok THEN Throw
            ELSE Items(it.P, buf, MapPut(acc, [name |-> PI!Bytes(buf, nm.off, nm.len), vt |-> it.vt], 1))
\* Binson::deseralizeItem
Item(P, buf) ==
  LET t == PI!GetType(P) IN
  IF P.err # NONE THEN Throw
  ELSE CASE t = "boolean" -> [ok |-> TRUE, P |-> P, vt |-> [t |-> "boolean", v |-> <<IF PI!GetBoolean(P) THEN 1 ELSE 0>>, kids |-> <<>>]]
         [] t = "integer" -> [ok |-> TRUE, P |-> P, vt |-> [t |-> "integer", v |-> PI!GetInteger(P), kids |-> <<>>]]
         [] t = "double"  -> [ok |-> TRUE, P |-> P, vt |-> [t |-> "double", v |-> PI!GetDouble(P), kids |-> <<>>]]
         [] t = "string"  -> LET s == PI!GetStringSpan(P) IN
                             IF ~s[1] THEN Throw ELSE [ok |-> TRUE, P |-> P, vt |-> [t |-> "string", v |-> PI!Bytes(buf, s[2], s[3]), kids |-> <<>>]]
         [] t = "bytes"   -> LET s == PI!GetBytesSpan(P) IN
                             IF ~s[1] THEN Throw ELSE [ok |-> TRUE, P |-> P, vt |-> [t |-> "bytes", v |-> PI!Bytes(buf, s[2], s[3]), kids |-> <<>>]]
         [] t = "object"  -> LET g == PI!GoIntoObject(P, buf) IN
                             IF ~g.ret THEN Throw
                             ELSE LET its == Items(g.P, buf, <<>>) IN
                                  IF ~its.ok THEN Throw
                                  ELSE LET l == PI!LeaveObject(its.P, buf) IN
                                       IF ~l.ret THEN Throw ELSE [ok |-> TRUE, P |-> l.P, vt |-> [t |-> "object", v |-> <<>>, kids |-> its.kids]]
         [] t = "array"   -> LET g == PI!GoIntoArray(P, buf) IN
                             IF ~g.ret THEN Throw
                             ELSE LET es == Elems(g.P, buf, <<>>) IN
                                  IF ~es.ok THEN Throw
                                  ELSE LET l == PI!LeaveArray(es.P, buf) IN
                                       IF ~l.ret THEN Throw ELSE [ok |-> TRUE, P |-> l.P, vt |-> [t |-> "array", v |-> <<>>, kids |-> es.kids]]
         [] OTHER -> Throw                                  \* "Unknown type"
\* the `while (binson_parser_next(p)) array.push_back(deseralizeItem(p))` loop
Elems(P, buf, acc) ==
  LET n == PI!NextP(P, buf) IN
  IF ~n.ret THEN [ok |-> TRUE, P |-> n.P, kids |-> acc]
  ELSE LET it == Item(n.P, buf) IN
       IF ~it.ok THEN Throw ELSE Elems(it.P, buf, Append(acc, [name |-> <<>>, vt |-> it.vt]))

\* Binson::deserialize(binson_parser *p): reset, go_into_object, items, leave_object - all checked
DeserParser(P, buf) ==
  LET r == PI!ResetCall(P, buf) IN
  IF ~r.ret THEN Throw
  ELSE LET g == PI!GoIntoObject(r.P, buf) IN
       IF ~g.ret THEN Throw
       ELSE LET its == Items(g.P, buf, <<>>) IN
            IF ~its.ok THEN Throw
            ELSE LET l == PI!LeaveObject(its.P, buf) IN
                 IF ~l.ret THEN Throw ELSE [ok |-> TRUE, vt |-> [t |-> "object", v |-> <<>>, kids |-> its.kids]]
\* Binson::deserialize(const uint8_t *, size_t): BINSON_PARSER_DEF (depth 10), init checked
DeserPtr(buf) ==
  LET i0 == PI!InitP("O", buf, 10) IN
  IF ~i0.ok THEN Throw ELSE DeserParser(i0.P, buf)
\* Binson::deserialize(const std::vector<uint8_t> &): (fix D5/D6) delegates
DeserVec(buf) == DeserPtr(buf)

\* ---- serialize -------------------------------------------------------------
RECURSIVE SerItems(_,_,_), SerItem(_,_)
SerItem(W, vt) ==
  CASE vt.t = "boolean" -> WI!Call(W, [op |-> IF vt.v[1] = 1 THEN "t" ELSE "f", v |-> <<>>]).W
    [] vt.t = "integer" -> WI!Call(W, [op |-> "int", v |-> vt.v]).W
    [] vt.t = "double"  -> WI!Call(W, [op |-> "dbl", v |-> vt.v]).W
    [] vt.t = "string"  -> WI!Call(W, [op |-> "str", v |-> vt.v]).W
    [] vt.t = "bytes"   -> WI!Call(W, [op |-> "bytes", v |-> vt.v]).W
    [] vt.t = "object"  -> WI!Call(SerItems(WI!Call(W, [op |-> "ob", v |-> <<>>]).W, vt.kids, 1), [op |-> "oe", v |-> <<>>]).W
    [] vt.t = "array"   ->
         LET RECURSIVE Arr(_,_)
             Arr(WW, i) == IF i > Len(vt.kids) THEN WW ELSE Arr(SerItem(WW, vt.kids[i].vt), i + 1)
         IN WI!Call(Arr(WI!Call(W, [op |-> "ab", v |-> <<>>]).W, 1), [op |-> "ae", v |-> <<>>]).W
SerItems(W, kids, i) ==
  IF i > Len(kids) THEN W
  ELSE SerItems(SerItem(WI!Call(W, [op |-> "name", v |-> kids[i].name]).W, kids[i].vt), kids, i + 1)
SerTo(W, vt) == WI!Call(SerItems(WI!Call(W, [op |-> "ob", v |-> <<>>]).W, vt.kids, 1), [op |-> "oe", v |-> <<>>]).W
\* std::vector<uint8_t> Binson::serialize(): 1000 bytes first, on RANGE retry with the counter
Serialize(vt) ==
  LET w1 == SerTo(WI!WInit(1000, TRUE), vt)
      w2 == IF w1.err = "RANGE" THEN SerTo(WI!WInit(w1.used, TRUE), vt) ELSE w1 IN
  IF w2.err = NONE THEN SubSeq(w2.mem, 1, w2.used) ELSE <<>>
=============================================================================
