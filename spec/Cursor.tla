------------------------------- MODULE Cursor -------------------------------
(***************************************************************************)
(* Layer A: the reference cursor over a decoded tree (BinsonFormat node).  *)
(* This is the contract C03/C06/C07/C11 are stated against: it has no scan *)
(* flags, no byte cursor and no notion of tokens - only a stack of frames. *)
(*                                                                         *)
(* c = [mode, stk]                                                         *)
(*   mode  "fresh"  nothing entered yet (only entering the root is allowed)*)
(*         "in"     inside the document                                    *)
(*         "left"   the root has been left: nothing more is specified      *)
(*         "err"    an _ensure variant reported WRONG_TYPE: latched        *)
(*   stk   sequence of frames [node, pos, on]                              *)
(*         pos = number of children already returned by next/lookup        *)
(*         on  = positioned on child pos, which has not been entered       *)
(*                                                                         *)
(* Every operation returns [c, ret, hit] ; hit = the child record the      *)
(* getters must describe after a TRUE result of next/lookup.               *)
(***************************************************************************)
EXTENDS Bytes

NoKid == [nOff |-> 0, nLen |-> 0, node |-> [t |-> "none", off |-> 0, end |-> 0, pOff |-> 0, pLen |-> 0, kids |-> <<>>]]
Fresh == [mode |-> "fresh", stk |-> <<>>]

Top(c) == c.stk[Len(c.stk)]
D(c) == Len(c.stk)
InFrame(c) == c.mode = "in" /\ c.stk # <<>>
OnKid(c) == Top(c).node.kids[Top(c).pos]
IsCont(t) == t \in {"object", "array"}
Res(c, ret, hit) == [c |-> c, ret |-> ret, hit |-> hit]

\* number of object frames = how far get_depth is above its value after init
ObjFrames(c) == Cardinality({i \in 1..Len(c.stk) : c.stk[i].node.t = "object"})

\* ---- protocol: which calls the properties say anything about ------------
CanEnterRoot(c, root, kind) == c.mode = "fresh" /\ root.t = kind
CanEnterKid(c, kind) == InFrame(c) /\ Top(c).on /\ OnKid(c).node.t = kind
CanEnter(c, root, kind) == CanEnterRoot(c, root, kind) \/ CanEnterKid(c, kind)
CanNext(c) == InFrame(c)
CanLeave(c, kind) == InFrame(c) /\ Top(c).node.t = kind
CanLookup(c) == InFrame(c) /\ Top(c).node.t = "object"
CanGetRaw(c) == InFrame(c) /\ Top(c).on

\* ---- operations -----------------------------------------------------------
Enter(c, root, kind) ==
  IF c.mode = "fresh"
  THEN Res([mode |-> "in", stk |-> <<[node |-> root, pos |-> 0, on |-> FALSE]>>], TRUE, NoKid)
  ELSE LET n == Len(c.stk) IN
       Res([c EXCEPT !.stk = Append([c.stk EXCEPT ![n].on = FALSE],
                                     [node |-> OnKid(c).node, pos |-> 0, on |-> FALSE])], TRUE, NoKid)

\* next: the following child (a child that was returned but not entered is
\* skipped as one element); FALSE at the end, repeatable
Next(c) ==
  LET n == Len(c.stk) f == Top(c) IN
  IF f.pos < Len(f.node.kids)
  THEN Res([c EXCEPT !.stk[n].pos = f.pos + 1, !.stk[n].on = TRUE], TRUE, f.node.kids[f.pos + 1])
  ELSE Res([c EXCEPT !.stk[n].on = FALSE], FALSE, NoKid)

\* leave from ANY position: the parent continues after the container
Leave(c) ==
  LET n == Len(c.stk) IN
  IF n = 1 THEN Res([mode |-> "left", stk |-> <<>>], TRUE, NoKid)
  ELSE Res([c EXCEPT !.stk = SubSeq(c.stk, 1, n - 1)], TRUE, NoKid)

\* lookup by name (bytes nm) in an object frame: TRUE iff a field with exactly those
\* bytes exists at or after the cursor; a miss moves only past smaller names
Lookup(c, buf, nm) ==
  LET n == Len(c.stk) f == Top(c)
      kids == f.node.kids
      Smaller(i) == CmpAt(buf, kids[i].nOff, kids[i].nLen, nm, 0, Len(nm)) < 0
      cand == {i \in (f.pos + 1)..Len(kids) : ~Smaller(i)}
      j == IF cand = {} THEN Len(kids) + 1 ELSE CHOOSE i \in cand : \A k \in cand : i <= k
      found == j <= Len(kids) /\ CmpAt(buf, kids[j].nOff, kids[j].nLen, nm, 0, Len(nm)) = 0
  IN IF found THEN Res([c EXCEPT !.stk[n].pos = j, !.stk[n].on = TRUE], TRUE, kids[j])
     ELSE Res([c EXCEPT !.stk[n].pos = j - 1, !.stk[n].on = FALSE], FALSE, NoKid)

\* _ensure variants: as the plain call, but a hit of another type is FALSE + WRONG_TYPE
Ensure(r, ty) ==
  IF r.ret /\ r.hit.node.t # ty THEN Res([r.c EXCEPT !.mode = "err"], FALSE, NoKid) ELSE r
NextEnsure(c, ty) == Ensure(Next(c), ty)
LookupEnsure(c, buf, nm, ty) == Ensure(Lookup(c, buf, nm), ty)

\* get_raw / to_writer on the child the cursor is on: containers are returned as their
\* exact span and consumed; anything else is FALSE and nothing changes
GetRaw(c) ==
  LET n == Len(c.stk) k == OnKid(c) IN
  IF IsCont(k.node.t) THEN Res([c EXCEPT !.stk[n].on = FALSE], TRUE, k) ELSE Res(c, FALSE, k)
RawOff(k) == k.node.off
RawLen(k) == k.node.end - k.node.off
=============================================================================
