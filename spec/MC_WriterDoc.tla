---------------------------- MODULE MC_WriterDoc ----------------------------
(***************************************************************************)
(* C05 on DOCUMENTS rather than on flat call lists: every well-formed      *)
(* value tree the builder can produce within the bounds (nested objects    *)
(* and arrays, field names ascending within each object, the empty name    *)
(* included) is turned into the call list an application would issue, and  *)
(* MC_Writer's evaluation is applied to it: Layer I (WriterImpl) against   *)
(* Layer A (WriterA), the output must be the canonical encoding, the       *)
(* writer's verify must accept it and decoding must give the values back.  *)
(* MC_Writer enumerates ALL lists of K calls and so cannot reach a shape   *)
(* such as {"a":{"x":1},"b":{"":2}} (12 calls); this module reaches them   *)
(* because only well-formed lists are built.                               *)
(***************************************************************************)
EXTENDS Integers, Sequences, FiniteSets, TLC
CONSTANTS MaxNodes,   \* values (primitive or container) besides the root object
          MaxNest,    \* container nesting incl. the root
          ValCalls,   \* sequence of value calls
          DocNames,   \* ascending sequence of field names
          AllCaps, EmitOn

VARIABLES calls, bstk, nodes, fin, bad
vars == <<calls, bstk, nodes, fin, bad>>

W == INSTANCE MC_Writer WITH K <- 0, Alpha <- <<>>, WithReset <- FALSE, seg1 <- calls, seg2 <- <<>>, hasMark <- FALSE

Init == calls = <<W!Ob>> /\ bstk = <<[kind |-> "O", last |-> 0]>> /\ nodes = 0 /\ fin = -1 /\ bad = ""

BTop == bstk[Len(bstk)]
Pick == IF BTop.kind = "O" THEN (BTop.last + 1)..Len(DocNames) ELSE {0}
PreC(i) == IF i = 0 THEN <<>> ELSE << [op |-> "name", v |-> DocNames[i]] >>
Bump(i) == IF i = 0 THEN bstk ELSE [bstk EXCEPT ![Len(bstk)].last = i]
Build ==
  /\ fin = -1 /\ Len(bstk) > 0
  /\ \/ /\ nodes < MaxNodes
        /\ \E i \in Pick :
             \/ \E v \in 1..Len(ValCalls) : calls' = calls \o PreC(i) \o <<ValCalls[v]>> /\ bstk' = Bump(i)
             \/ /\ Len(bstk) < MaxNest
                /\ \E k \in {"O", "A"} :
                     /\ calls' = calls \o PreC(i) \o <<IF k = "O" THEN W!Ob ELSE W!Ab>>
                     /\ bstk' = Append(Bump(i), [kind |-> k, last |-> 0])
        /\ nodes' = nodes + 1
     \/ /\ calls' = Append(calls, IF BTop.kind = "O" THEN W!Oe ELSE W!Ae)
        /\ bstk' = SubSeq(bstk, 1, Len(bstk) - 1) /\ nodes' = nodes
  /\ UNCHANGED <<fin, bad>>

Finish == /\ fin = -1 /\ Len(bstk) = 0
          /\ \E cap \in (IF AllCaps THEN 0..(W!Total + 1) ELSE {W!Total, W!Total + 1}) :
               LET ev == W!Eval(cap) IN
               /\ fin' = cap
               /\ bad' = IF ev.ok THEN "" ELSE "Layer I deviates from Layer A: " \o ev.line
               /\ (EmitOn => PrintT(ev.line))
          /\ UNCHANGED <<calls, bstk, nodes>>
Next == Build \/ Finish
Spec == Init /\ [][Next]_vars
Refines == bad = ""
\* every finished list is a well-formed object: its canonical encoding parses
WellFormed == (fin # -1) => W!A!Parse(W!A!EncCalls(calls, 1), "O", 10).ok

ValsDoc == << W!I8(<<5,0,0,0,0,0,0,0>>), [op |-> "t", v |-> <<>>], [op |-> "str", v |-> <<120>>], [op |-> "bytes", v |-> <<>>] >>
ValsDoc1 == << W!I8(<<5,0,0,0,0,0,0,0>>) >>
NamesEAB == << <<>>, <<97>>, <<98>> >>
NamesLongW == << <<97>>, [i \in 1..127 |-> 109], [i \in 1..128 |-> 109], <<122>> >>     \* names across the 127/128 length-prefix boundary
NamesNul == << <<>>, <<97>>, <<97, 0>>, <<97, 0, 120>>, <<97, 0, 121>>, <<128>> >>
=============================================================================
