------------------------------- MODULE MC_Class -------------------------------
(***************************************************************************)
(* C15: the C++ Binson class.  Byte strings = all token strings of up to K *)
(* tokens over Sigma behind 0x40 (closed and open), the empty and one-byte *)
(* buffers, object nesting around the wrapper's depth limit of 10, and     *)
(* documents whose size crosses the 1000-byte first-try buffer of          *)
(* serialize().  Layer A: deserialize returns normally iff Parse(b,"O",10) *)
(* accepts, the object then equals the decoded value tree, and serialize   *)
(* of that tree gives back the bytes (keys in bytewise order).             *)
(***************************************************************************)
EXTENDS Integers, Sequences, FiniteSets, TLC, FmtTable
CONSTANTS K, Sigma, Families, EmitOn

CI == INSTANCE ClassImpl
F  == INSTANCE BinsonFormat
R  == INSTANCE Render WITH FmtF <- FmtF      \* Binson::toStr() must be the reference rendering (C14 through the class)

Rep(b, n) == [i \in 1..n |-> b]
VARIABLES buf, n, res
vars == <<buf, n, res>>

RECURSIVE ObjNest(_)
ObjNest(d) == IF d = 1 THEN <<64, 65>> ELSE <<64, 20, 1, 97>> \o ObjNest(d - 1) \o <<65>>
\* {"a": "<L bytes>"} : size = 2 + 3 + 3 + L
Big(L) == <<64, 20, 1, 97>> \o F!EncStr(Rep(113, L)) \o <<65>>
\* {"a":"<L>","b":[1,2,{"c":true}]}
\* d nested objects, the innermost holds an array: stepping into and out of an array on the deepest permitted level
RECURSIVE ObjNestArr(_)
ObjNestArr(d) == IF d = 1 THEN <<64, 20, 1, 97, 66, 16, 1, 66, 67, 67, 65>> ELSE <<64, 20, 1, 97>> \o ObjNestArr(d - 1) \o <<65>>
\* d nested objects, the innermost holds an L-byte string: with L > 1000 EVERY level exceeds serialize()'s first-try buffer
RECURSIVE NestBig(_,_)
NestBig(d, L) == IF d = 1 THEN Big(L) ELSE <<64, 20, 1, 97>> \o NestBig(d - 1, L) \o <<65>>
Big2(L) == <<64, 20, 1, 97>> \o F!EncStr(Rep(113, L)) \o <<20, 1, 98, 66, 16, 1, 16, 2, 64, 20, 1, 99, 68, 65, 67, 65>>
FamilyDocs ==
  {<<>>, <<64>>, <<65>>, <<0>>, <<64, 65>>, <<66, 67>>, <<64, 65, 65>>, <<64, 65, 64, 65>>,
   \* keys that are identical up to and including an embedded 0x00, and an empty bytes value
   <<64, 20, 3, 107, 0, 97, 16, 1, 20, 3, 107, 0, 98, 16, 2, 65>>, <<64, 20, 3, 0, 97, 98, 68, 20, 2, 0, 98, 69, 65>>,
   <<64, 20, 1, 97, 24, 0, 20, 1, 98, 20, 0, 65>>} \cup
  {ObjNest(d) : d \in {1, 2, 9, 10, 11, 12, 30}} \cup {NestBig(d, 1100) : d \in {3, 10, 11, 40}} \cup {ObjNestArr(d) : d \in {1, 9, 10, 11}} \cup
  {Big(L) : L \in {985, 990, 991, 992, 993, 994, 1000, 1300}} \cup {Big2(L) : L \in {970, 975, 976, 977, 978, 979, 980, 985, 990, 995, 1000, 1010, 2000}}

R0 == [done |-> FALSE, ok |-> FALSE, ref |-> FALSE, same |-> TRUE, back |-> TRUE]
Init == /\ res = R0
        /\ \/ (buf = <<64>> /\ n = 0)
           \/ (Families /\ buf \in FamilyDocs /\ n = K + 1)
Add == ~res.done /\ n < K /\ \E i \in 1..Len(Sigma) : buf' = buf \o Sigma[i] /\ n' = n + 1 /\ res' = res

\* canonical dump of a value tree, the format the C++ harness prints
RECURSIVE Dump(_), DumpKids(_,_,_)
Dump(vt) ==
  CASE vt.t = "integer" -> "i" \o F!HexStr(vt.v)
    [] vt.t = "double"  -> "d" \o F!HexStr(vt.v)
    [] vt.t = "boolean" -> IF vt.v[1] = 1 THEN "b1" ELSE "b0"
    [] vt.t = "string"  -> "s" \o F!HexStr(vt.v) \o ";"
    [] vt.t = "bytes"   -> "y" \o F!HexStr(vt.v) \o ";"
    [] vt.t = "object"  -> "o{" \o DumpKids(vt.kids, 1, TRUE) \o "}"
    [] vt.t = "array"   -> "a[" \o DumpKids(vt.kids, 1, FALSE) \o "]"
DumpKids(kids, i, named) ==
  IF i > Len(kids) THEN ""
  ELSE (IF named THEN F!HexStr(kids[i].name) \o ":" ELSE "") \o Dump(kids[i].vt) \o DumpKids(kids, i + 1, named)

RECURSIVE KnownD(_)
KnownD(vt) == IF vt.t = "double" THEN vt.v \in FmtKnown ELSE \A i \in 1..Len(vt.kids) : KnownD(vt.kids[i].vt)
Check(closeIt) ==
  /\ ~res.done /\ n' = n
  /\ buf' = IF closeIt THEN buf \o <<65>> ELSE buf
  /\ LET a == F!Parse(buf', "O", 10)
         d == CI!DeserPtr(buf')
         vtA == IF a.ok THEN F!ToVT(buf', a.node) ELSE [t |-> "none", v |-> <<>>, kids |-> <<>>]
         \* a value tree deeper than the wrapper's own parser reads can still be BUILT with put(): the replayer
         \* does so and calls serialize() and toStr() on it (C16: they return)
         a64 == IF a.ok THEN a ELSE F!Parse(buf', "O", 64)
     IN /\ res' = [done |-> TRUE, ok |-> d.ok, ref |-> a.ok,
                   same |-> (a.ok /\ d.ok) => d.vt = vtA,
                   back |-> (a.ok /\ d.ok) => CI!Serialize(d.vt) = buf']
        /\ (EmitOn => PrintT("CBEH " \o (IF buf' = <<>> THEN "-" ELSE F!HexStr(buf')) \o " | ok=" \o (IF a.ok THEN "1" ELSE "0")
                             \o " deep=" \o (IF ~a.ok /\ a64.ok THEN Dump(F!ToVT(buf', a64.node)) ELSE "x")
                             \o " tree=" \o (IF a.ok THEN Dump(vtA) ELSE "x")
                             \o " text=" \o (IF a.ok /\ KnownD(vtA) THEN F!HexStr(R!RenderVT(vtA)) ELSE "x")))
Next == Add \/ \E c \in BOOLEAN : Check(c)
Spec == Init /\ [][Next]_vars

Agree == res.ok = res.ref            \* returns normally iff well-formed (depth limit 10)
SameTree == res.same                 \* the object equals the decoded tree
RoundTrip == res.back                \* serialize(deserialize(b)) = b

SigmaC == << <<64>>, <<65>>, <<66>>, <<67>>, <<68>>, <<69>>, <<16, 5>>, <<17, 5, 0>>, <<17, 128, 0>>, <<18, 0, 128, 255, 255>>,
             <<19, 0, 0, 0, 128, 0, 0, 0, 0>>, <<70, 0, 0, 0, 0, 0, 0, 240, 63>>, <<70, 1, 0, 0, 0, 0, 0, 248, 255>>,
             <<20, 1, 97>>, <<20, 1, 98>>, <<20, 0>>, <<20, 2, 97, 0>>, <<20, 1, 200>>, <<21, 1, 0, 97>>, <<24, 1, 170>>, <<24, 0>>,
             <<0>>, <<17, 128>>, <<20, 5, 97>> >>
=============================================================================
