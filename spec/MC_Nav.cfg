SPECIFICATION Spec
CONSTANTS
 MaxNodes = 4
 MaxNest = 3
 ParserMaxD = 4
 Vals <- ValsInt1
 DocNames <- NamesAB
 LookNames <- LookAB
 Ops <- OpsNav
 Roots <- RootsOA
 HistK = 0
 NavScope = "C06"
 EmitOn = FALSE
VIEW View
INVARIANTS Refines FormatTheorems TranscribeOK
CHECK_DEADLOCK FALSE
