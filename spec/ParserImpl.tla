----------------------------- MODULE ParserImpl -----------------------------
(***************************************************************************)
(* Layer I: HOW src/binson_parser.c does it.  One operator per C function, *)
(* one evaluation of Iter per iteration of the `while (proceed)` loop of   *)
(* _advance_parsing.  Things a documentation-style spec would idealise are *)
(* kept: stale current_type, the IN_ARRAY_1/IN_ARRAY_2 toggle, the rewind  *)
(* by bytes_consumed, leave_* looking at state[depth-1], init assigning    *)
(* only some fields of a possibly dirty struct.                            *)
(*                                                                         *)
(* P = [ptype, depth, maxd, size, used, err, cur, st, oob]                 *)
(*   ptype  "O" | "A" | "X" (X = neither: garbage type byte)               *)
(*   cur    1-based index of parser->current_state in st                   *)
(*   st[i]  [flags, ad, ctype, hasName, nOff, nLen, vOff, vLen, ival, bval]*)
(*          flags is a SET of bits {"F","V","A1","A2"} so that garbage     *)
(*          words and CHECKBITMASK semantics are representable             *)
(*   oob    ghost: an index outside st[1..maxd] or buf[0..size-1] was used *)
(*                                                                         *)
(* This module models the tree WITH the fixes D1 (leave_* gate on the      *)
(* error flag before indexing), D2 (ARRAY_END restores IN_ARRAY_1) and D3  *)
(* (unconsumed ARRAY_BEGIN keeps array flags); see DESIGN.md section 7.    *)
(***************************************************************************)
EXTENDS Integers, Sequences, FiniteSets, TLC

NONE  == "NONE"
TNONE == "none"

\* ---- byte helpers (deliberately bytewise; Layer A decides these numerically)
ByteAt(buf, off) == buf[off + 1]
Bytes(buf, off, n) == [i \in 1..n |-> buf[off + i]]
IsNeg(bs) == bs[Len(bs)] >= 128
FitsIn(bs, k) ==
  LET n == Len(bs) IN
  IF k >= n THEN TRUE
  ELSE LET signByte == IF bs[k] >= 128 THEN 255 ELSE 0
       IN \A i \in (k+1)..n : bs[i] = signByte
\* _parse_integer(check_boundaries = true)
MinimalWidth(bs) ==
  LET n == Len(bs) IN
  CASE n = 1 -> TRUE
    [] n = 2 -> ~FitsIn(bs, 1)
    [] n = 4 -> ~FitsIn(bs, 2)
    [] n = 8 -> ~FitsIn(bs, 4)
    [] OTHER -> FALSE
\* the uint64 prefill-and-shift loop of _parse_integer
SignExtend8(bs) == [i \in 1..8 |-> IF i <= Len(bs) THEN bs[i] ELSE IF IsNeg(bs) THEN 255 ELSE 0]
RECURSIVE LEVal(_)
LEVal(bs) == IF Len(bs) = 0 THEN 0 ELSE bs[1] + 256 * LEVal(Tail(bs))

\* _cmp_name: memcmp over the common prefix, then the length difference (sign only)
RECURSIVE CmpSeq(_,_)
CmpSeq(a, b) ==
  IF Len(a) = 0 /\ Len(b) = 0 THEN 0
  ELSE IF Len(a) = 0 THEN -1
  ELSE IF Len(b) = 0 THEN 1
  ELSE IF a[1] < b[1] THEN -1
  ELSE IF a[1] > b[1] THEN 1
  ELSE CmpSeq(Tail(a), Tail(b))

CheckBoundary(a, b, max) == a + b <= max

\* ---- parser state -------------------------------------------------------
ZeroLevel == [flags |-> {}, ad |-> 0, ctype |-> TNONE, hasName |-> FALSE, nOff |-> 0, nLen |-> 0,
              vOff |-> 0, vLen |-> 0, ival |-> <<>>, bval |-> FALSE]

\* a parser object nothing has been done with (BINSON_PARSER_DEF leaves garbage;
\* this is the all-zero instance of it)
BlankP(maxd) == [ptype |-> "X", depth |-> 0, maxd |-> maxd, size |-> 0, used |-> 0, err |-> NONE,
                 cur |-> 1, st |-> [i \in 1..maxd |-> ZeroLevel], oob |-> FALSE]

\* binson_parser_reset (buffer / type / maxd already in P)
Reset(P, buf) ==
  IF P.size < 2 THEN [ok |-> FALSE, P |-> [P EXCEPT !.err = "RANGE"]]
  ELSE IF P.ptype = "O" THEN
     IF ~(buf[1] = 64 /\ buf[P.size] = 65) THEN [ok |-> FALSE, P |-> [P EXCEPT !.err = "FORMAT"]]
     ELSE [ok |-> TRUE, P |-> [P EXCEPT !.depth = 0, !.err = NONE, !.used = 0, !.cur = 1,
                                       !.st = [i \in 1..P.maxd |-> ZeroLevel]]]
  ELSE IF P.ptype = "A" THEN
     IF ~(buf[1] = 66 /\ buf[P.size] = 67) THEN [ok |-> FALSE, P |-> [P EXCEPT !.err = "FORMAT"]]
     ELSE [ok |-> TRUE, P |-> [P EXCEPT !.depth = 1, !.err = NONE, !.used = 0, !.cur = 1,
                                       !.st = [i \in 1..P.maxd |-> ZeroLevel]]]
  ELSE [ok |-> FALSE, P |-> P]

\* _binson_parser_init on a parser object in ANY prior condition Pold: assigns exactly
\* the fields the C code assigns (cb, buffer, buffer_size, error_flags, type), then reset
InitImpl(Pold, buf, ptype) ==
  Reset([Pold EXCEPT !.size = Len(buf), !.err = NONE, !.ptype = ptype], buf)

InitP(ptype, buf, maxd) == InitImpl(BlankP(maxd), buf, ptype)

\* _process_one : returns [P, ns, cOff, cLen, bc]
ProcessOne(P, buf) ==
  LET b  == ByteAt(buf, P.used)
      P1 == [P EXCEPT !.used = P.used + 1]
      Fail(PP, e) == [P |-> [PP EXCEPT !.err = e], ns |-> "ERROR", cOff |-> 0, cLen |-> 0, bc |-> 1]
  IN
  IF b \in {68, 69} THEN [P |-> P1, ns |-> "BOOL", cOff |-> P.used, cLen |-> 1, bc |-> 1]
  ELSE IF b = 70 THEN
     IF ~CheckBoundary(P1.used, 8, P.size) THEN Fail(P1, "RANGE")
     ELSE [P |-> [P1 EXCEPT !.used = P1.used + 8], ns |-> "DOUBLE", cOff |-> P1.used, cLen |-> 8, bc |-> 9]
  ELSE IF b \in {16, 17, 18, 19} THEN
     LET w == 2^(b % 4) IN
     IF ~CheckBoundary(P1.used, w, P.size) THEN Fail(P1, "RANGE")
     ELSE [P |-> [P1 EXCEPT !.used = P1.used + w], ns |-> "INTEGER", cOff |-> P1.used, cLen |-> w, bc |-> 1 + w]
  ELSE IF b \in {20, 21, 22, 24, 25, 26} THEN
     LET w == 2^(b % 4) IN
     IF ~CheckBoundary(P1.used, w, P.size) THEN Fail(P1, "RANGE")
     ELSE LET lb == Bytes(buf, P1.used, w)
              P2 == [P1 EXCEPT !.used = P1.used + w] IN
          IF ~MinimalWidth(lb) THEN Fail(P2, "FORMAT")
          ELSE IF IsNeg(lb) THEN Fail(P2, "FORMAT")
          ELSE LET len == LEVal(lb) IN
               IF ~CheckBoundary(P2.used, len, P.size) THEN Fail(P2, "RANGE")
               ELSE [P |-> [P2 EXCEPT !.used = P2.used + len],
                     ns |-> IF b < 24 THEN "STRING" ELSE "BYTES",
                     cOff |-> P2.used, cLen |-> len, bc |-> 1 + w + len]
  ELSE Fail(P1, "FORMAT")

ValueNS == {"STRING", "BOOL", "DOUBLE", "INTEGER", "BYTES", "OB", "AB"}   \* BINSON_STATE_VALUE_FLAG
InObj(f) == f \cap {"F", "V"} # {}
InArr(f) == f \cap {"A1", "A2"} # {}
ProceedFlags == {"VERIFY", "LEAVE_OBJ", "VALUE", "LEAVE_ARR"}

\* One iteration of the while loop in _advance_parsing.
\* L = [P, sf, scan, hasScan, oAd, oDepth, bc, steps, evs, hi]
\*   evs : callback events so far, each [ns, ad, off, len]  (ad = array_depth of
\*         parser->current_state when the callback runs, off/len = token payload)
\*   hi  : highest buffer_used reached (before any rewind)
\* returns [L, status] with status in {"cont","true","false"}
Iter(L, buf) ==
  LET P == L.P
      sIdx == IF P.depth > 0 THEN P.depth ELSE 1
      Ret(PP, r) == [L |-> [L EXCEPT !.P = PP], status |-> r]
  IN
  IF sIdx > P.maxd THEN Ret([P EXCEPT !.oob = TRUE], "false")
  ELSE IF ~CheckBoundary(P.used, 1, P.size) THEN Ret([P EXCEPT !.err = "RANGE"], "false")
  ELSE
  LET b == ByteAt(buf, P.used)
      tok == CASE b = 64 -> [P |-> [P EXCEPT !.st[sIdx].ctype = "object"], ns |-> "OB", cOff |-> P.used, cLen |-> 1, bc |-> L.bc]
               [] b = 65 -> [P |-> P, ns |-> "OE", cOff |-> P.used, cLen |-> 1, bc |-> L.bc]
               [] b = 66 -> [P |-> [P EXCEPT !.st[sIdx].ctype = "array"], ns |-> "AB", cOff |-> P.used, cLen |-> 1, bc |-> L.bc]
               [] b = 67 -> [P |-> P, ns |-> "AE", cOff |-> P.used, cLen |-> 1, bc |-> L.bc]
               [] OTHER  -> ProcessOne(P, buf)
      hi1 == IF tok.P.used > L.hi THEN tok.P.used ELSE L.hi
  IN
  IF tok.ns = "ERROR" THEN [L |-> [L EXCEPT !.P = tok.P, !.hi = hi1, !.steps = L.steps + 1], status |-> "false"]
  ELSE
  LET P1 == tok.P
      f0 == P1.st[sIdx].flags
      \* --- IN_OBJECT block
      ns1 == IF InObj(f0) /\ "F" \in f0 /\ tok.ns = "STRING" THEN "NAME" ELSE tok.ns
      objFmtErr == InObj(f0) /\ ns1 \in ValueNS /\ ~("V" \in f0)
      f1 == IF InObj(f0) /\ ns1 \in ValueNS /\ "V" \in f0 THEN {"F"} ELSE f0
  IN
  IF objFmtErr THEN [L |-> [L EXCEPT !.P = [P1 EXCEPT !.err = "FORMAT"], !.hi = hi1, !.steps = L.steps + 1], status |-> "false"]
  ELSE
  LET same == (L.oAd = P1.st[sIdx].ad) /\ (L.oDepth = P1.depth)
      \* --- IN_ARRAY block
      arrBlk == InArr(f1) /\ same
      f2 == IF arrBlk /\ ns1 \in {"OB", "AB"} THEN (IF "A1" \in f1 THEN {"A2"} ELSE {"A1"}) ELSE f1
      sf1 == IF arrBlk /\ (~(ns1 \in {"OB", "AB"}) \/ "A1" \in f1) THEN L.sf \ {"VALUE"} ELSE L.sf
      P2 == [P1 EXCEPT !.st[sIdx].flags = f2]
      L2 == [L EXCEPT !.P = P2, !.sf = sf1, !.bc = tok.bc, !.steps = L.steps + 1, !.hi = hi1]
      Ev(PP) == [ns |-> ns1, ad |-> PP.st[PP.cur].ad, off |-> tok.cOff, len |-> tok.cLen]
      WithCb(PP, sff) == [L2 EXCEPT !.P = PP, !.sf = sff, !.evs = Append(L.evs, Ev(PP)),
                                    !.hi = IF PP.used > hi1 THEN PP.used ELSE hi1]
      \* after the switch: error check, callback, proceed?
      Done(PP, sff) ==
         IF PP.err # NONE THEN [L |-> [L2 EXCEPT !.P = PP, !.sf = sff], status |-> "false"]
         ELSE IF sff \cap ProceedFlags # {} THEN [L |-> WithCb(PP, sff), status |-> "cont"]
         ELSE [L |-> WithCb(PP, sff), status |-> "true"]
      RetF(PP, sff) == [L |-> [L2 EXCEPT !.P = PP, !.sf = sff], status |-> "false"]
      \* the two `return false` exits that call the callback first (root END)
      RetFCb(PP, sff) == [L |-> WithCb(PP, sff), status |-> "false"]
  IN
  CASE ns1 = "OB" ->
        IF sf1 \cap {"VERIFY", "ENTER_OBJ", "VALUE", "LEAVE_ARR", "LEAVE_OBJ"} # {} THEN
           LET sf2 == sf1 \ {"ENTER_OBJ"}
               P3 == [P2 EXCEPT !.used = P2.used + 1] IN
           IF P3.depth < 255 /\ P3.depth < P3.maxd THEN
              Done([P3 EXCEPT !.depth = P3.depth + 1, !.cur = P3.depth + 1,
                              !.st[P3.depth + 1].flags = {"F"}], sf2)
           ELSE Done([P3 EXCEPT !.err = "MAX_DEPTH_OBJECT"], sf2)
        ELSE IF f2 = {"F"} THEN Done([P2 EXCEPT !.st[sIdx].flags = {"V"}], sf1)
        ELSE Done(P2, sf1)
    [] ns1 = "OE" ->
        IF ~("F" \in f2) THEN Done([P2 EXCEPT !.err = "FORMAT"], sf1)
        ELSE IF sf1 \cap {"VERIFY", "LEAVE_OBJ", "VALUE", "LEAVE_ARR"} # {} THEN
           LET sf2 == IF L.oDepth = P2.depth THEN sf1 \ {"LEAVE_OBJ"} ELSE sf1 IN
           IF L.oDepth = P2.depth /\ "VALUE" \in sf2 THEN RetF(P2, sf2)
           ELSE
             LET P3 == [P2 EXCEPT !.used = P2.used + 1, !.st[P2.cur] = ZeroLevel] IN
             IF P3.depth > 1 THEN Done([P3 EXCEPT !.depth = P3.depth - 1, !.cur = P3.depth - 1], sf2)
             ELSE IF P3.depth = 1 THEN
                  RetFCb([P3 EXCEPT !.depth = 0, !.cur = 1,
                                    !.err = IF P3.used # P3.size THEN "FORMAT" ELSE P3.err], sf2)
             ELSE RetF([P3 EXCEPT !.err = "FORMAT"], sf2)
        ELSE RetF(P2, sf1)
    [] ns1 = "NAME" ->
        LET lv == P2.st[sIdx]
            cname == Bytes(buf, tok.cOff, tok.cLen)
            prev == Bytes(buf, lv.nOff, lv.nLen)
        IN
        IF lv.hasName /\ CmpSeq(prev, cname) >= 0 THEN Done([P2 EXCEPT !.err = "FORMAT"], sf1)
        ELSE IF same /\ L.hasScan /\ CmpSeq(cname, L.scan) > 0 THEN
             RetF([P2 EXCEPT !.used = P2.used - tok.bc, !.st[sIdx].flags = {"F"}], sf1)
        ELSE LET sf2 == IF same THEN sf1 \ {"VALUE"} ELSE sf1
                 P3 == [P2 EXCEPT !.st[sIdx].hasName = TRUE, !.st[sIdx].nOff = tok.cOff,
                                  !.st[sIdx].nLen = tok.cLen, !.st[sIdx].flags = {"V"}]
             IN [L |-> WithCb(P3, sf2), status |-> "cont"]
    [] ns1 = "AB" ->
        IF P2.st[sIdx].ad >= 255 THEN Done([P2 EXCEPT !.err = "MAX_DEPTH_ARRAY"], sf1)
        ELSE IF sf1 \cap {"VERIFY", "VALUE", "ENTER_ARR", "LEAVE_ARR", "LEAVE_OBJ"} # {} THEN
           Done([P2 EXCEPT !.used = P2.used + 1, !.st[sIdx].flags = {"A1"},
                           !.st[sIdx].ad = P2.st[sIdx].ad + 1], sf1 \ {"ENTER_ARR"})
        ELSE IF f2 = {"F"} THEN Done([P2 EXCEPT !.st[sIdx].flags = {"V"}], sf1)     \* fix D3
        ELSE Done(P2, sf1)
    [] ns1 = "AE" ->
        IF ~InArr(f2) THEN Done([P2 EXCEPT !.err = "FORMAT"], sf1)
        ELSE IF sf1 \cap {"VERIFY", "VALUE", "LEAVE_ARR", "LEAVE_OBJ"} # {} THEN
           LET sf2 == IF same THEN sf1 \ {"LEAVE_ARR"} ELSE sf1 IN
           IF P2.st[sIdx].ad = 0 THEN Done([P2 EXCEPT !.err = "FORMAT"], sf2)
           ELSE LET nad == P2.st[sIdx].ad - 1
                    P3 == [P2 EXCEPT !.st[sIdx].ad = nad, !.used = P2.used + 1] IN
                IF nad = 0 THEN
                   LET P4 == [P3 EXCEPT !.st[sIdx].flags = {"F"}] IN
                   IF P4.ptype = "A" /\ P4.depth = 1 THEN
                      RetFCb([P4 EXCEPT !.err = IF P4.used # P4.size THEN "FORMAT" ELSE P4.err], sf2)
                   ELSE Done(P4, sf2)
                ELSE Done([P3 EXCEPT !.st[sIdx].flags = {"A1"}], sf2)                 \* fix D2
        ELSE RetF(P2, sf1)
    [] ns1 \in {"STRING", "BYTES"} ->
        Done([P2 EXCEPT !.st[sIdx].ctype = IF ns1 = "STRING" THEN "string" ELSE "bytes",
                        !.st[sIdx].vOff = tok.cOff, !.st[sIdx].vLen = tok.cLen], sf1)
    [] ns1 = "INTEGER" ->
        LET bs == Bytes(buf, tok.cOff, tok.cLen) IN
        IF ~MinimalWidth(bs) THEN Done([P2 EXCEPT !.err = "FORMAT", !.st[sIdx].ival = SignExtend8(bs)], sf1)
        ELSE Done([P2 EXCEPT !.st[sIdx].ctype = "integer", !.st[sIdx].ival = SignExtend8(bs)], sf1)
    [] ns1 = "DOUBLE" ->
        Done([P2 EXCEPT !.st[sIdx].ctype = "double", !.st[sIdx].ival = Bytes(buf, tok.cOff, 8)], sf1)
    [] ns1 = "BOOL" ->
        Done([P2 EXCEPT !.st[sIdx].ctype = "boolean", !.st[sIdx].bval = (ByteAt(buf, tok.cOff) = 68)], sf1)

RECURSIVE Loop(_,_)
Loop(L, buf) ==
  LET r == Iter(L, buf) IN
  IF r.status = "cont" THEN Loop(r.L, buf)
  ELSE [P |-> r.L.P, ret |-> (r.status = "true") /\ r.L.P.err = NONE, steps |-> r.L.steps,
        evs |-> r.L.evs, hi |-> r.L.hi]

L0(P, sf, hasScan, scan) ==
  [P |-> P, sf |-> sf, scan |-> scan, hasScan |-> hasScan,
   oAd |-> P.st[P.cur].ad, oDepth |-> P.depth, bc |-> 0, steps |-> 0, evs |-> <<>>, hi |-> P.used]

\* _advance_parsing(parser, scan_flags, scan_name)
Adv(P, buf, sf, hasScan, scan) ==
  IF P.err # NONE THEN [P |-> P, ret |-> FALSE, steps |-> 0, evs |-> <<>>, hi |-> P.used]
  ELSE IF P.cur > P.maxd THEN [P |-> [P EXCEPT !.oob = TRUE], ret |-> FALSE, steps |-> 0, evs |-> <<>>, hi |-> P.used]
  ELSE Loop(L0(P, sf, hasScan, scan), buf)

\* ---- public API (call level).  Every result has [P, ret, steps, evs, hi] ----
R(P, ret) == [P |-> P, ret |-> ret, steps |-> 0, evs |-> <<>>, hi |-> P.used]

Verify(P, buf) ==
  LET r0 == Reset(P, buf) IN
  IF ~r0.ok THEN R(r0.P, FALSE)
  ELSE LET a == Adv(r0.P, buf, {"VERIFY"}, FALSE, <<>>)
           ok == (~a.ret) /\ a.P.err = NONE IN
       IF ok THEN [a EXCEPT !.P = Reset(a.P, buf).P, !.ret = TRUE] ELSE [a EXCEPT !.ret = FALSE]

ResetCall(P, buf) == LET r == Reset(P, buf) IN R(r.P, r.ok)

NextP(P, buf) == Adv(P, buf, {"VALUE"}, FALSE, <<>>)
GoIntoObject(P, buf) == Adv(P, buf, {"ENTER_OBJ"}, FALSE, <<>>)
GoIntoArray(P, buf) == Adv(P, buf, {"ENTER_ARR"}, FALSE, <<>>)

\* binson_parser_next_ensure: reads current_state->current_type directly
NextEnsure(P, buf, ty) ==
  LET a == NextP(P, buf) IN
  IF ~a.ret THEN a
  ELSE IF a.P.st[a.P.cur].ctype # ty THEN [a EXCEPT !.P.err = "WRONG_TYPE", !.ret = FALSE]
  ELSE a

LeaveIdx(P) == IF P.depth > 0 THEN P.depth ELSE 1
\* leave_*: (fix D1) gate on the error flag before touching state[depth-1]
LeaveGen(P, buf, bits, flag) ==
  IF P.err # NONE THEN R(P, FALSE)
  ELSE IF LeaveIdx(P) > P.maxd THEN R([P EXCEPT !.oob = TRUE], FALSE)
  ELSE IF P.st[LeaveIdx(P)].flags \cap bits = {} THEN R(P, FALSE)
  ELSE LET a == Adv(P, buf, {flag}, FALSE, <<>>) IN
       IF ~a.ret THEN [a EXCEPT !.ret = (a.P.err = NONE)] ELSE a
LeaveObject(P, buf) == LeaveGen(P, buf, {"F", "V"}, "LEAVE_OBJ")
LeaveArray(P, buf)  == LeaveGen(P, buf, {"A1", "A2"}, "LEAVE_ARR")

\* binson_parser_field_with_length (name # NULL)
RECURSIVE FieldLoop(_,_,_,_)
FieldLoop(P, buf, name, acc) ==
  LET a == Adv(P, buf, {"VALUE"}, TRUE, name)
      acc2 == [P |-> a.P, ret |-> a.ret, steps |-> acc.steps + a.steps, evs |-> acc.evs \o a.evs,
               hi |-> IF a.hi > acc.hi THEN a.hi ELSE acc.hi] IN
  IF ~a.ret THEN acc2
  ELSE LET lv == a.P.st[a.P.cur]
           r == CmpSeq(name, Bytes(buf, lv.nOff, lv.nLen)) IN
       IF r = 0 THEN [acc2 EXCEPT !.ret = TRUE]
       ELSE IF r < 0 THEN [acc2 EXCEPT !.ret = FALSE]
       ELSE FieldLoop(a.P, buf, name, acc2)
Field(P, buf, name) == FieldLoop(P, buf, name, R(P, FALSE))
\* name == NULL
FieldNull(P) == R([P EXCEPT !.err = "NULL"], FALSE)

GetType(P) == IF P.err = NONE /\ P.cur <= P.maxd THEN P.st[P.cur].ctype ELSE TNONE

FieldEnsure(P, buf, name, ty) ==
  LET a == Field(P, buf, name) IN
  IF ~a.ret THEN a
  ELSE IF GetType(a.P) = ty THEN a
  ELSE [a EXCEPT !.P.err = "WRONG_TYPE", !.ret = FALSE]

\* binson_parser_get_raw; result also has off/len of *raw
GetRaw(P, buf) ==
  LET X(r, o, l) == [P |-> r.P, ret |-> r.ret, steps |-> r.steps, evs |-> r.evs, hi |-> r.hi, off |-> o, len |-> l] IN
  IF P.err # NONE THEN X(R(P, FALSE), 0, 0)
  ELSE LET t == P.st[P.cur].ctype
           pos == P.used
           two(f1, f2) ==
             LET a == Adv(P, buf, {f1}, FALSE, <<>>) IN
             IF ~a.ret THEN X(a, pos, 0)
             ELSE LET b == Adv(a.P, buf, {f2}, FALSE, <<>>) IN
                  X([b EXCEPT !.steps = a.steps + b.steps, !.evs = a.evs \o b.evs,
                              !.hi = IF a.hi > b.hi THEN a.hi ELSE b.hi],
                    pos, IF b.ret THEN b.P.used - pos ELSE 0)
       IN
       IF t = "object" THEN two("ENTER_OBJ", "LEAVE_OBJ")
       ELSE IF t = "array" THEN two("ENTER_ARR", "LEAVE_ARR")
       ELSE X(R(P, FALSE), pos, 0)

\* ---- getters (each returns [P, v]) ---------------------------------------
Lv(P) == P.st[P.cur]
GetDepth(P) == P.depth
\* binson_parser_get_name SETS the STATE error when there is no name
GetName(P) ==
  IF P.err # NONE THEN [P |-> P, ok |-> FALSE, off |-> 0, len |-> 0]
  ELSE IF Lv(P).hasName THEN [P |-> P, ok |-> TRUE, off |-> Lv(P).nOff, len |-> Lv(P).nLen]
  ELSE [P |-> [P EXCEPT !.err = "STATE"], ok |-> FALSE, off |-> 0, len |-> 0]
Gate(P, ty) == P.err = NONE /\ P.cur <= P.maxd /\ Lv(P).ctype = ty
GetStringSpan(P) == IF Gate(P, "string") THEN <<TRUE, Lv(P).vOff, Lv(P).vLen>> ELSE <<FALSE, 0, 0>>
GetBytesSpan(P)  == IF Gate(P, "bytes")  THEN <<TRUE, Lv(P).vOff, Lv(P).vLen>> ELSE <<FALSE, 0, 0>>
Zero8 == <<0, 0, 0, 0, 0, 0, 0, 0>>
GetInteger(P) == IF Gate(P, "integer") THEN Lv(P).ival ELSE Zero8
GetDouble(P)  == IF Gate(P, "double")  THEN Lv(P).ival ELSE Zero8
GetBoolean(P) == IF Gate(P, "boolean") THEN Lv(P).bval ELSE FALSE
\* binson_parser_string_equals(p, s): s is NUL-terminated, so only NUL-free s
StringEquals(P, buf, s) ==
  Gate(P, "string") /\ CmpSeq(Bytes(buf, Lv(P).vOff, Lv(P).vLen), s) = 0
=============================================================================
