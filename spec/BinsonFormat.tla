---------------------------- MODULE BinsonFormat ----------------------------
(***************************************************************************)
(* Layer A: WHAT a Binson document is.  An independent recursive-descent   *)
(* recogniser/decoder over byte sequences (grammar of binson_defines.h and *)
(* BINSON-SPEC-1) and the canonical encoder.  Knows nothing of scan flags, *)
(* IN_ARRAY_1/2, rewinds or any other implementation device.               *)
(*                                                                         *)
(* Well-formedness (property C02):                                         *)
(*   - at least 2 bytes, first/last byte BEGIN/END of the root kind        *)
(*   - object = 0x40 *(name value) 0x41, names are strings, strictly       *)
(*     ascending in unsigned bytewise order (shorter-is-smaller)           *)
(*   - array  = 0x42 *value 0x43                                           *)
(*   - integers and string/bytes lengths in their shortest 1/2/4/8 form    *)
(*   - 0 <= length <= INT32_MAX and the payload inside the buffer          *)
(*   - no trailing bytes after the root END                                *)
(*   - object nesting <= maxd (an array-rooted parser spends one level on  *)
(*     the root), array nesting <= 255 counted inside one object level     *)
(***************************************************************************)
EXTENDS Bytes

ArrayLimit == 255

Fail(k, p) == [ok |-> FALSE, kind |-> k, pos |-> p]

\* The token starting at 0-based offset off.
\* ok: [ok, k, off, pOff, pLen, end]    k \in OB OE AB AE BOOL DBL INT STR BYTES
Tok(buf, off) ==
  LET n == Len(buf) IN
  IF off >= n THEN Fail("RANGE", off)
  ELSE LET b == B(buf, off) IN
  CASE b = 64 -> [ok |-> TRUE, k |-> "OB", off |-> off, pOff |-> off, pLen |-> 0, end |-> off + 1]
    [] b = 65 -> [ok |-> TRUE, k |-> "OE", off |-> off, pOff |-> off, pLen |-> 0, end |-> off + 1]
    [] b = 66 -> [ok |-> TRUE, k |-> "AB", off |-> off, pOff |-> off, pLen |-> 0, end |-> off + 1]
    [] b = 67 -> [ok |-> TRUE, k |-> "AE", off |-> off, pOff |-> off, pLen |-> 0, end |-> off + 1]
    [] b \in {68, 69} -> [ok |-> TRUE, k |-> "BOOL", off |-> off, pOff |-> off, pLen |-> 1, end |-> off + 1]
    [] b = 70 -> IF off + 9 > n THEN Fail("RANGE", off)
                 ELSE [ok |-> TRUE, k |-> "DBL", off |-> off, pOff |-> off + 1, pLen |-> 8, end |-> off + 9]
    [] b \in 16..19 ->
         LET w == 2^(b - 16) IN
         IF off + 1 + w > n THEN Fail("RANGE", off)
         ELSE IF ~MinimalAt(buf, off + 1, w) THEN Fail("FORMAT", off)
         ELSE [ok |-> TRUE, k |-> "INT", off |-> off, pOff |-> off + 1, pLen |-> w, end |-> off + 1 + w]
    [] b \in {20, 21, 22, 24, 25, 26} ->
         LET w == 2^(b % 4) IN
         IF off + 1 + w > n THEN Fail("RANGE", off)
         ELSE IF ~MinimalAt(buf, off + 1, w) THEN Fail("FORMAT", off)
         ELSE LET v == SValAt(buf, off + 1, w) IN
              IF v < 0 THEN Fail("FORMAT", off)
              ELSE IF off + 1 + w + v > n THEN Fail("RANGE", off)
              ELSE [ok |-> TRUE, k |-> IF b < 24 THEN "STR" ELSE "BYTES", off |-> off,
                    pOff |-> off + 1 + w, pLen |-> v, end |-> off + 1 + w + v]
    [] OTHER -> Fail("FORMAT", off)

TypeOfTok(k) == CASE k = "BOOL" -> "boolean" [] k = "DBL" -> "double" [] k = "INT" -> "integer"
                  [] k = "STR" -> "string" [] k = "BYTES" -> "bytes" [] k = "OB" -> "object"
                  [] k = "AB" -> "array" [] OTHER -> "none"

\* node = [t, off, end, pOff, pLen, kids]; kids[i] = [nOff, nLen, node]
\* od = object levels in use, ad = array nesting inside the current object level
RECURSIVE Val(_,_,_,_,_), Fields(_,_,_,_,_,_,_,_), Elems(_,_,_,_,_,_,_)
Val(buf, off, od, ad, maxd) ==
  LET t == Tok(buf, off) IN
  IF ~t.ok THEN t
  ELSE CASE t.k \in {"BOOL", "DBL", "INT", "STR", "BYTES"} ->
              [ok |-> TRUE, node |-> [t |-> TypeOfTok(t.k), off |-> off, end |-> t.end,
                                      pOff |-> t.pOff, pLen |-> t.pLen, kids |-> <<>>]]
         [] t.k = "OB" -> IF od >= maxd THEN Fail("DEPTH_OBJECT", off)
                          ELSE Fields(buf, off, t.end, od + 1, maxd, FALSE, <<0, 0>>, <<>>)
         [] t.k = "AB" -> IF ad >= ArrayLimit THEN Fail("DEPTH_ARRAY", off)
                          ELSE Elems(buf, off, t.end, od, ad + 1, maxd, <<>>)
         [] OTHER -> Fail("FORMAT", off)
Fields(buf, start, off, od, maxd, hasPrev, prev, acc) ==
  LET t == Tok(buf, off) IN
  IF ~t.ok THEN t
  ELSE IF t.k = "OE" THEN
       [ok |-> TRUE, node |-> [t |-> "object", off |-> start, end |-> t.end, pOff |-> start, pLen |-> 0, kids |-> acc]]
  ELSE IF t.k # "STR" THEN Fail("FORMAT", off)
  ELSE IF hasPrev /\ CmpAt(buf, prev[1], prev[2], buf, t.pOff, t.pLen) >= 0 THEN Fail("FORMAT", off)
  ELSE LET v == Val(buf, t.end, od, 0, maxd) IN
       IF ~v.ok THEN v
       ELSE Fields(buf, start, v.node.end, od, maxd, TRUE, <<t.pOff, t.pLen>>,
                   Append(acc, [nOff |-> t.pOff, nLen |-> t.pLen, node |-> v.node]))
Elems(buf, start, off, od, ad, maxd, acc) ==
  LET t == Tok(buf, off) IN
  IF ~t.ok THEN t
  ELSE IF t.k = "AE" THEN
       [ok |-> TRUE, node |-> [t |-> "array", off |-> start, end |-> t.end, pOff |-> start, pLen |-> 0, kids |-> acc]]
  ELSE IF t.k = "OE" THEN Fail("FORMAT", off)
  ELSE LET v == Val(buf, off, od, ad, maxd) IN
       IF ~v.ok THEN v
       ELSE Elems(buf, start, v.node.end, od, ad, maxd, Append(acc, [nOff |-> 0, nLen |-> 0, node |-> v.node]))

\* Whole document.  root \in {"O","A"}.  Result [ok |-> TRUE, node] or Fail(kind,pos).
Parse(buf, root, maxd) ==
  LET n == Len(buf) IN
  IF n < 2 THEN Fail("RANGE", 0)
  ELSE IF root = "O" THEN
     IF ~(buf[1] = 64 /\ buf[n] = 65) THEN Fail("FORMAT", 0)
     ELSE LET r == Val(buf, 0, 0, 0, maxd) IN
          IF ~r.ok THEN r ELSE IF r.node.end # n THEN Fail("FORMAT", r.node.end) ELSE r
  ELSE
     IF ~(buf[1] = 66 /\ buf[n] = 67) THEN Fail("FORMAT", 0)
     ELSE LET r == Val(buf, 0, 1, 0, maxd) IN
          IF ~r.ok THEN r ELSE IF r.node.end # n THEN Fail("FORMAT", r.node.end) ELSE r

WellFormed(buf, root, maxd) == Parse(buf, root, maxd).ok
Unlimited == 100000
\* "nesting is the first obstacle met": the exact MAX_DEPTH_* code is required only then
DepthFirstObstacle(buf, root, maxd) ==
  LET r == Parse(buf, root, maxd) IN
  IF r.ok \/ ~(r.kind \in {"DEPTH_OBJECT", "DEPTH_ARRAY"}) THEN "none" ELSE r.kind

(***************************************************************************)
(* Value trees and the canonical encoder.                                  *)
(* vt = [t, v, kids]   v = 8 bytes (integer, two's complement LE / double  *)
(* IEEE LE), <<0|1>> (boolean), payload bytes (string/bytes), <<>> else    *)
(* kids[i] = [name, vt]  (name = <<>> inside arrays)                        *)
(***************************************************************************)
RECURSIVE ToVT(_,_), KidsVT(_,_,_)
ToVT(buf, nd) ==
  CASE nd.t = "integer" -> [t |-> "integer", v |-> SignExt8(Sub(buf, nd.pOff, nd.pLen)), kids |-> <<>>]
    [] nd.t = "double"  -> [t |-> "double", v |-> Sub(buf, nd.pOff, 8), kids |-> <<>>]
    [] nd.t = "boolean" -> [t |-> "boolean", v |-> <<IF B(buf, nd.off) = 68 THEN 1 ELSE 0>>, kids |-> <<>>]
    [] nd.t \in {"string", "bytes"} -> [t |-> nd.t, v |-> Sub(buf, nd.pOff, nd.pLen), kids |-> <<>>]
    [] OTHER -> [t |-> nd.t, v |-> <<>>, kids |-> KidsVT(buf, nd.kids, 1)]
KidsVT(buf, kids, i) ==
  IF i > Len(kids) THEN <<>>
  ELSE <<[name |-> Sub(buf, kids[i].nOff, kids[i].nLen), vt |-> ToVT(buf, kids[i].node)]>> \o KidsVT(buf, kids, i + 1)

\* shortest k in 1,2,4,8 such that sign-extending the first k bytes gives v8
IntWidth(v8) == CHOOSE k \in {1, 2, 4, 8} :
                   /\ SignExt8(SubSeq(v8, 1, k)) = v8
                   /\ \A j \in {1, 2, 4, 8} : j < k => SignExt8(SubSeq(v8, 1, j)) # v8
WidthCode(k) == CASE k = 1 -> 0 [] k = 2 -> 1 [] k = 4 -> 2 [] k = 8 -> 3
EncInt(v8) == LET k == IntWidth(v8) IN <<16 + WidthCode(k)>> \o SubSeq(v8, 1, k)
LenWidth(n) == IF n <= 127 THEN 1 ELSE IF n <= 32767 THEN 2 ELSE 4
EncLen(base, n) == LET k == LenWidth(n) IN <<base + WidthCode(k)>> \o LEBytes(n, k)
EncStr(bs) == EncLen(20, Len(bs)) \o bs
EncBytes(bs) == EncLen(24, Len(bs)) \o bs

RECURSIVE Enc(_), EncKids(_,_,_)
Enc(vt) ==
  CASE vt.t = "integer" -> EncInt(vt.v)
    [] vt.t = "double"  -> <<70>> \o vt.v
    [] vt.t = "boolean" -> <<IF vt.v[1] = 1 THEN 68 ELSE 69>>
    [] vt.t = "string"  -> EncStr(vt.v)
    [] vt.t = "bytes"   -> EncBytes(vt.v)
    [] vt.t = "object"  -> <<64>> \o EncKids(vt.kids, 1, TRUE) \o <<65>>
    [] vt.t = "array"   -> <<66>> \o EncKids(vt.kids, 1, FALSE) \o <<67>>
EncKids(kids, i, named) ==
  IF i > Len(kids) THEN <<>>
  ELSE (IF named THEN EncStr(kids[i].name) ELSE <<>>) \o Enc(kids[i].vt) \o EncKids(kids, i + 1, named)

\* every container node of a tree (for the C11 theorem)
RECURSIVE Containers(_), ContKids(_,_)
Containers(nd) == IF nd.t \in {"object", "array"} THEN {nd} \cup ContKids(nd.kids, 1) ELSE {}
ContKids(kids, i) == IF i > Len(kids) THEN {} ELSE Containers(kids[i].node) \cup ContKids(kids, i + 1)

RECURSIVE NodeCount(_), KidsCount(_,_)
NodeCount(nd) == 1 + KidsCount(nd.kids, 1)
KidsCount(kids, i) == IF i > Len(kids) THEN 0 ELSE NodeCount(kids[i].node) + KidsCount(kids, i + 1)
=============================================================================
