------------------------------- MODULE MC_Nav -------------------------------
(***************************************************************************)
(* Product of Layer I (ParserImpl) and Layer A (Cursor over the tree that  *)
(* BinsonFormat decodes) on EVERY well-formed document the builder can     *)
(* produce within the bounds and the COMPLETE graph of protocol-following  *)
(* calls: next, next_ensure, go_into_*, leave_*, field lookups (plain and  *)
(* _ensure), get_raw / to_writer, and (for C12) init/reset/verify from     *)
(* every reachable state.  Decides C03 C06 C07 C11 C12 at model level and  *)
(* prints one behaviour per generated transition for the replayer.         *)
(***************************************************************************)
EXTENDS Integers, Sequences, FiniteSets, TLC
CONSTANTS MaxNodes,    \* values (primitive or container) besides the root
          MaxNest,     \* container nesting of the document incl. the root
          ParserMaxD,  \* max_depth given to the parser
          Vals,        \* sequence of primitive tokens (byte sequences)
          DocNames,    \* ascending sequence of field names (byte sequences)
          LookNames,   \* set of names asked for by lookups
          Ops,         \* enabled call kinds
          Roots,       \* subset of {"O","A"}
          HistK,       \* the last HistK calls are part of the explored state (0 = plain product graph): every path
                       \* suffix of that length is continued, which exposes hidden implementation state that a
                       \* correct Layer I merges (e.g. a stale toggle left by one particular call order)
          NavScope,    \* properties in whose scope a plain navigation disagreement of this model lies
          EmitOn

PI == INSTANCE ParserImpl
F  == INSTANCE BinsonFormat
C  == INSTANCE Cursor
E  == INSTANCE Emit
CI == INSTANCE ClassImpl

VARIABLES phase, buf, bstk, nodes, tree, P, c, hex, path, bad, hist
vars == <<phase, buf, bstk, nodes, tree, P, c, hex, path, bad, hist>>
\* hidden: tree/hex are functions of buf; path/bad are history; frames are
\* identified by their (pos,on) pairs
View == <<phase, buf, bstk, nodes, P, c.mode, [i \in 1..Len(c.stk) |-> <<c.stk[i].pos, c.stk[i].on>>], hist>>
Push(h, tok) == IF HistK = 0 THEN <<>> ELSE LET a == Append(h, tok) IN IF Len(a) > HistK THEN SubSeq(a, Len(a) - HistK + 1, Len(a)) ELSE a

RootKind == IF buf[1] = 64 THEN "O" ELSE "A"
Base == IF RootKind = "A" THEN 1 ELSE 0

Init == /\ phase = "build"
        /\ \E r \in Roots : buf = <<IF r = "O" THEN 64 ELSE 66>> /\ bstk = <<[kind |-> r, last |-> 0]>>
        /\ nodes = 0 /\ tree = C!NoKid.node /\ P = PI!BlankP(ParserMaxD) /\ c = C!Fresh
        /\ hex = "" /\ path = "" /\ bad = "" /\ hist = <<>>

\* ---------- document builder: all well-formed token strings -------------
BTop == bstk[Len(bstk)]
Pick == IF BTop.kind = "O" THEN (BTop.last + 1)..Len(DocNames) ELSE {0}
PreB(i) == IF i = 0 THEN <<>> ELSE F!EncStr(DocNames[i])
Bump(i) == IF i = 0 THEN bstk ELSE [bstk EXCEPT ![Len(bstk)].last = i]
Build ==
  /\ phase = "build" /\ Len(bstk) > 0
  /\ \/ /\ nodes < MaxNodes
        /\ \E i \in Pick :
             \/ \E v \in 1..Len(Vals) : buf' = buf \o PreB(i) \o Vals[v] /\ bstk' = Bump(i)
             \/ /\ Len(bstk) < MaxNest
                /\ \E k \in {"O", "A"} :
                     \* objects only as deep as the parser's max_depth allows (an array root occupies level 1):
                     \* with a tight ParserMaxD the documents use the state array up to its last entry
                     /\ (k = "O" => Cardinality({j \in 1..Len(bstk) : bstk[j].kind = "O"}) + (IF bstk[1].kind = "A" THEN 1 ELSE 0) < ParserMaxD)
                     /\ buf' = buf \o PreB(i) \o <<IF k = "O" THEN 64 ELSE 66>>
                     /\ bstk' = Append(Bump(i), [kind |-> k, last |-> 0])
        /\ nodes' = nodes + 1
     \/ /\ buf' = buf \o <<IF BTop.kind = "O" THEN 65 ELSE 67>>
        /\ bstk' = SubSeq(bstk, 1, Len(bstk) - 1) /\ nodes' = nodes
  /\ UNCHANGED <<phase, tree, P, c, hex, path, bad, hist>>

InitPath(h) == E!Pre("I", RootKind \o h, "1") \o " "
Start ==
  /\ phase = "build" /\ Len(bstk) = 0
  /\ LET pr == F!Parse(buf, RootKind, ParserMaxD)
         i0 == PI!InitP(RootKind, buf, ParserMaxD) IN
     /\ phase' = "nav" /\ tree' = pr.node /\ P' = i0.P /\ c' = C!Fresh
     /\ hex' = F!HexStr(buf) /\ path' = InitPath(F!HexStr(buf))
     /\ bad' = IF pr.ok /\ i0.ok THEN "" ELSE "builder produced a document Layer A or init rejects"
  /\ UNCHANGED <<buf, bstk, nodes, hist>>

\* ---------- one navigation call ------------------------------------------
Line(pfx, last) == "BEH Z " \o ToString(ParserMaxD) \o " " \o NavScope \o " | " \o pfx \o "| " \o last

\* Layer I vs Layer A for a child the getters must describe
HitOK(PP, hit, inObj) ==
  LET nd == hit.node
      nm == PI!GetName(PP) IN
  /\ PI!GetType(PP) = nd.t
  /\ inObj => (nm.ok /\ nm.off = hit.nOff /\ nm.len = hit.nLen)
  /\ CASE nd.t = "integer" -> PI!GetInteger(PP) = F!SignExt8(F!Sub(buf, nd.pOff, nd.pLen))
       [] nd.t = "double"  -> PI!GetDouble(PP) = F!Sub(buf, nd.pOff, 8)
       [] nd.t = "boolean" -> PI!GetBoolean(PP) = (F!B(buf, nd.off) = 68)
       [] nd.t = "string"  -> PI!GetStringSpan(PP) = <<TRUE, nd.pOff, nd.pLen>>
       [] nd.t = "bytes"   -> PI!GetBytesSpan(PP) = <<TRUE, nd.pOff, nd.pLen>>
       [] OTHER -> TRUE

\* r: Layer I result, a: Layer A result, kind: "enter" "leave" "hit" "raw" "rawx" "ens"
Step(op, arg, r, a, kind) ==
  LET inObj == C!InFrame(c) /\ C!Top(c).node.t = "object"
      wrongType == a.c.mode = "err"
      dexp == C!ObjFrames(a.c)
      ok == /\ r.ret = a.ret
            /\ ~r.P.oob
            /\ IF wrongType THEN r.P.err = "WRONG_TYPE" ELSE r.P.err = PI!NONE
            /\ wrongType \/ r.P.depth = Base + dexp
            /\ (a.ret /\ kind = "hit") => HitOK(r.P, a.hit, inObj)
            /\ (kind = "raw") => (r.off = C!RawOff(a.hit) /\ r.len = C!RawLen(a.hit))
            /\ (kind = "rawx") => r.P = P
            /\ (a.c.mode = "left") => r.P.used = Len(buf)
      \* WRONG_TYPE is promised by C07 for the _ensure LOOKUPS; for next_ensure no listed property says
      \* anything, so its outcome on a type mismatch is a Layer-I prediction only (drift, never a violation)
      soft == wrongType /\ op = "ne"
      eStr == IF wrongType THEN (IF soft THEN "~7" ELSE "7") ELSE "0"
      dStr == IF wrongType THEN "x" ELSE ToString(dexp)
      tStr == IF wrongType THEN (IF soft THEN "~0" ELSE "0")
              ELSE IF a.ret /\ kind = "hit" THEN ToString(E!TypeCode(a.hit.node.t)) ELSE "x"
      nStr == IF a.ret /\ kind = "hit" /\ inObj THEN E!Span(a.hit.nOff, a.hit.nLen) ELSE "x"
      vStr == IF a.ret /\ kind = "hit" THEN E!ValStr(buf, a.hit.node)
              ELSE IF kind = "raw" THEN "R" \o E!Span(C!RawOff(a.hit), C!RawLen(a.hit)) ELSE "x"
      rStr == IF soft THEN E!BitI(a.ret) ELSE E!Bit(a.ret)
      last == E!Full(op, arg, rStr, eStr, dStr, tStr, nStr, vStr, ToString(r.P.used))
  IN
  /\ P' = r.P /\ c' = a.c
  /\ path' = path \o E!Pre(op, arg, rStr) \o " "
  /\ bad' = IF ok THEN bad ELSE "Layer I deviates from Layer A at: " \o path \o last
  /\ (EmitOn => PrintT(Line(path, last)))
  /\ hist' = Push(hist, op \o arg)
  /\ UNCHANGED <<phase, buf, bstk, nodes, tree, hex>>

KindName(t) == IF t = "object" THEN "O" ELSE "A"
\* types offered to the _ensure variants: the right one and a wrong one
EnsTypes(t) == {t, IF t = "string" THEN "integer" ELSE "string"}
NextType == IF C!Top(c).pos < Len(C!Top(c).node.kids) THEN C!Top(c).node.kids[C!Top(c).pos + 1].node.t ELSE "integer"

Nav ==
  /\ phase = "nav" /\ bad = ""
  /\ \/ \* enter (root, or the container just returned)
        \E k \in {"object", "array"} :
          /\ "enter" \in Ops /\ C!CanEnter(c, tree, k)
          /\ IF k = "object" THEN Step("io", "", PI!GoIntoObject(P, buf), C!Enter(c, tree, k), "enter")
             ELSE Step("ia", "", PI!GoIntoArray(P, buf), C!Enter(c, tree, k), "enter")
     \/ /\ "next" \in Ops /\ C!CanNext(c)
        \* "full": a full traversal never skips a container it has been handed
        /\ ("full" \in Ops => ~(C!Top(c).on /\ C!IsCont(C!OnKid(c).node.t)))
        /\ Step("n", "", PI!NextP(P, buf), C!Next(c), "hit")
     \/ /\ "nextens" \in Ops /\ C!CanNext(c)
        /\ \E ty \in EnsTypes(NextType) :
             Step("ne", ToString(E!TypeCode(ty)), PI!NextEnsure(P, buf, ty), C!NextEnsure(c, ty), "hit")
     \/ \E k \in {"object", "array"} :
          /\ "leave" \in Ops /\ C!CanLeave(c, k)
          \* "full": ... and leaves a container only when everything in it has been visited
          /\ ("full" \in Ops => (C!Top(c).pos = Len(C!Top(c).node.kids) /\ ~C!Top(c).on))
          /\ IF k = "object" THEN Step("lo", "", PI!LeaveObject(P, buf), C!Leave(c), "leave")
             ELSE Step("la", "", PI!LeaveArray(P, buf), C!Leave(c), "leave")
     \/ /\ "field" \in Ops /\ C!CanLookup(c)
        /\ \E nm \in LookNames :
             Step("f", F!HexStr(nm), PI!Field(P, buf, nm), C!Lookup(c, buf, nm), "hit")
     \/ /\ "fieldens" \in Ops /\ C!CanLookup(c)
        /\ \E nm \in LookNames :
             LET a0 == C!Lookup(c, buf, nm) IN
             \E ty \in (IF a0.ret THEN EnsTypes(a0.hit.node.t) ELSE {"integer"}) :
               Step("fe", F!HexStr(nm) \o "." \o ToString(E!TypeCode(ty)),
                    PI!FieldEnsure(P, buf, nm, ty), C!LookupEnsure(c, buf, nm, ty), "hit")
     \/ /\ "raw" \in Ops /\ C!CanGetRaw(c)
        /\ LET a == C!GetRaw(c) IN
           \* twe = to_writer into a writer that has already failed: the counter keeps counting (C09)
           \E op \in {"raw", "tw", "twe"} : Step(op, "", PI!GetRaw(P, buf), a, IF a.ret THEN "raw" ELSE "rawx")

\* C12: init / reset / verify from EVERY reachable state give the fresh parser
Fresh0 == PI!InitP(RootKind, buf, ParserMaxD).P
Again(op, PP, ret) ==
  /\ P' = PP /\ c' = C!Fresh /\ path' = InitPath(hex) /\ hist' = <<>>
  /\ bad' = IF ret /\ PP = Fresh0 THEN bad ELSE "not fresh after " \o path \o op
  /\ (EmitOn => PrintT(Line(path, E!Full(op, IF op = "I" THEN RootKind \o hex ELSE "", "1", "0", "0", "x", "x",
                                         IF "xprobe" \in Ops THEN "X" ELSE "P", "0"))))
  /\ UNCHANGED <<phase, buf, bstk, nodes, tree, hex>>
Reuse ==
  /\ phase = "nav" /\ bad = "" /\ "reuse" \in Ops /\ path # InitPath(hex)
  /\ \/ LET i == PI!InitImpl(P, buf, RootKind) IN Again("I", i.P, i.ok)
     \/ LET i == PI!ResetCall(P, buf) IN Again("rs", i.P, i.ret)
     \/ LET i == PI!Verify(P, buf) IN Again("v", i.P, i.ret)

\* C10: walk the whole document with the parser and hand every decoded name and value to the
\* writer; Layer A requires the output to be the input (the replayer does the transcription)
Transcribe ==
  /\ phase = "nav" /\ bad = "" /\ "transcribe" \in Ops /\ c.mode = "fresh"
  /\ c' = [mode |-> "left", stk |-> <<>>] /\ path' = path \o "xc=1 "
  /\ (EmitOn => PrintT(Line(path, E!Full("xc", "", "1", "0", "x", "x", "x", "x", ToString(Len(buf))))))
  /\ UNCHANGED <<phase, buf, bstk, nodes, tree, hex, P, bad, hist>>

Next == Build \/ Start \/ Nav \/ Reuse \/ Transcribe
Spec == Init /\ [][Next]_vars

\* ---------- model-level properties (Layer I refines Layer A) --------------
Refines == bad = ""
\* Layer-A theorems on every document built: unique encoding (C05/C10) and
\* every container span is a well-formed standalone document (C11)
FormatTheorems ==
  phase = "nav" =>
    /\ F!Enc(F!ToVT(buf, tree)) = buf
    /\ \A nd \in F!Containers(tree) :
         LET sub == F!Sub(buf, nd.off, nd.end - nd.off)
             r == F!Parse(sub, KindName(nd.t), 100) IN
         r.ok /\ F!ToVT(sub, r.node) = F!ToVT(buf, nd)

\* C10 at model level: ParserImpl traversal composed with WriterImpl (through the ClassImpl scripts)
TranscribeOK ==
  (phase = "nav" /\ RootKind = "O" /\ "transcribe" \in Ops) =>
     LET d == CI!DeserPtr(buf) IN d.ok /\ d.vt = F!ToVT(buf, tree) /\ CI!Serialize(d.vt) = buf

\* ---------- constant values used by the .cfg files -------------------------
ValsInt1 == << <<16, 5>> >>
ValsMix  == << <<16, 5>>, <<68>>, <<20, 1, 120>> >>
ValsAll  == << <<16, 5>>, <<16, 251>>, <<16, 127>>, <<16, 128>>, <<17, 255, 127>>, <<17, 0, 128>>, <<18, 255, 255, 255, 127>>, <<18, 0, 0, 0, 128>>,
               <<19, 255, 255, 255, 255, 255, 255, 255, 127>>, <<19, 0, 0, 0, 0, 0, 0, 0, 128>>, <<17, 128, 0>>, <<17, 127, 255>>, <<18, 0, 128, 0, 0>>, <<18, 255, 127, 255, 255>>,
               <<19, 0, 0, 0, 128, 0, 0, 0, 0>>, <<19, 255, 255, 255, 127, 255, 255, 255, 255>>,
               <<19, 1, 2, 3, 4, 5, 6, 7, 136>>,
               <<68>>, <<69>>, <<70, 0, 0, 0, 0, 0, 0, 240, 63>>, <<70, 1, 0, 0, 0, 0, 0, 248, 255>>,
               <<20, 0>>, <<20, 1, 120>>, <<20, 2, 0, 200>>, <<24, 0>>, <<24, 1, 170>>, <<24, 2, 0, 255>> >>
NamesAB  == << <<97>>, <<98>>, <<99>> >>
NamesRich == << <<>>, <<0>>, <<97>>, <<97, 0>>, <<97, 0, 120>>, <<97, 0, 121>>, <<97, 97>>, <<98>>, <<128>>, <<255>> >>
NamesE == << <<>>, <<97>> >>
NamesA == << <<97>> >>      \* one name: objects have at most one field, the node budget goes into nesting
Rep(b, n) == [i \in 1..n |-> b]
\* names whose length prefix needs 1 and 2 bytes (127 / 128) around short ones
NamesLong == << <<97>>, Rep(109, 127), Rep(109, 128), <<122>> >>
LookLong == {<<97>>, <<98>>, Rep(109, 127), Rep(109, 128), Rep(109, 129), <<122>>, <<123>>}
\* incl. names that extend a present name by the first byte of a value's encoding (0x42 '[', 0x40 '{', 0x10 int8)
LookAB   == {<<>>, <<97>>, <<97, 97>>, <<98>>, <<99>>, <<100>>, <<97, 66>>, <<97, 64>>, <<97, 16>>, <<98, 16, 5>>}
LookSmall == {<<>>, <<97>>, <<98>>, <<99>>, <<97, 97>>}      \* for the history stages (HistK = 2 squares the number of calls)
LookRich == {<<>>, <<0>>, <<97>>, <<97, 0>>, <<97, 97>>, <<97, 98>>, <<98>>, <<127>>, <<128>>, <<255>>, <<255, 0>>}
OpsWalk  == {"enter", "next", "leave"}
OpsFull  == {"enter", "next", "leave", "full"}
OpsNavE  == {"enter", "next", "leave", "raw", "nextens"}
OpsNav   == {"enter", "next", "leave", "raw"}
OpsAll   == {"enter", "next", "leave", "raw", "field", "nextens", "fieldens"}
OpsLook  == {"enter", "next", "leave", "field", "fieldens"}
OpsTrans == {"transcribe"}
OpsReuseX == {"enter", "next", "leave", "field", "reuse", "xprobe"}
OpsReuse == {"enter", "next", "leave", "raw", "field", "reuse"}
RootsOA  == {"O", "A"}
RootsO   == {"O"}
=============================================================================
