SPECIFICATION Spec
CONSTANTS
 K = 3
 MaxCalls = 1
 MaxDs <- MaxDs2
 Sigma <- SigmaByte
 Names <- NamesH
 Fills <- FillsTwo
 EmitOn = TRUE
VIEW View
INVARIANTS NoOob CursorInside Latch NeutralWhenErr FreshAfterInit Work WorkLookup
CHECK_DEADLOCK FALSE
