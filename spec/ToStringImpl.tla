---------------------------- MODULE ToStringImpl ----------------------------
(***************************************************************************)
(* Layer I: _binson_to_string_cb / binson_parser_to_string and             *)
(* _binson_print_cb / binson_parser_print of src/binson_parser.c, as a     *)
(* machine driven by the callback events of ParserImpl!Verify:             *)
(*    ev = [ns, ad, off, len]   ad = array_depth of parser->current_state  *)
(* ctx = [cap, used, full, ps, mem, maxStore]                              *)
(*    cap       buffer_size given by the caller (0 for a NULL buffer)      *)
(*    mem       bytes stored so far (position i+1 <-> buffer[i])           *)
(*    maxStore  1 + highest index stored into (ghost for C13)              *)
(* snprintf(p, avail, s) is modelled exactly: stores min(len, avail-1)     *)
(* characters and a NUL iff avail > 0, returns len.                        *)
(* The model contains fix D4 (an empty object that is not an array element *)
(* leaves pstate = 2, so that the next name gets its comma).               *)
(***************************************************************************)
EXTENDS Integers, Sequences, FiniteSets, TLC
CONSTANT FmtF(_)         \* %f text of 8 IEEE bytes
CONSTANT DecText(_)      \* %PRId64 text of 8 LE bytes (taken from Layer A's Dec64: libc is trusted for integers)

Max(a, b) == IF a > b THEN a ELSE b
Min(a, b) == IF a < b THEN a ELSE b
Bytes(buf, off, n) == [i \in 1..n |-> buf[off + i]]
CheckBoundary(a, b, max) == a + b <= max
Overlay(mem, pos, data) ==
  [i \in 1..Max(Len(mem), pos + Len(data)) |-> IF i > pos /\ i <= pos + Len(data) THEN data[i - pos] ELSE IF i <= Len(mem) THEN mem[i] ELSE 0]

\* snprintf(&buffer[pos], avail, txt): returns the new ctx (mem, maxStore); the C return value is Len(txt)
Snp(ctx, pos, avail, txt) ==
  IF avail = 0 THEN ctx
  ELSE LET n == Min(Len(txt), avail - 1)
           data == SubSeq(txt, 1, n) \o <<0>> IN
       [ctx EXCEPT !.mem = Overlay(ctx.mem, pos, data), !.maxStore = Max(ctx.maxStore, pos + n + 1)]

RECURSIVE UptoNul(_)
UptoNul(bs) == IF bs = <<>> \/ Head(bs) = 0 THEN <<>> ELSE <<Head(bs)>> \o UptoNul(Tail(bs))
SignExtend8(bs) == [i \in 1..8 |-> IF i <= Len(bs) THEN bs[i] ELSE IF bs[Len(bs)] >= 128 THEN 255 ELSE 0]
HexChr(d) == IF d < 10 THEN 48 + d ELSE 87 + d

\* text of a simple token as printf produces it
TokText(ev, buf) ==
  CASE ev.ns = "OB" -> <<123>> [] ev.ns = "OE" -> <<125>> [] ev.ns = "AB" -> <<91>> [] ev.ns = "AE" -> <<93>>
    [] ev.ns = "NAME" -> <<34>> \o UptoNul(Bytes(buf, ev.off, ev.len)) \o <<34, 58>>
    [] ev.ns = "STRING" -> <<34>> \o UptoNul(Bytes(buf, ev.off, ev.len)) \o <<34>>
    [] ev.ns = "BOOL" -> IF buf[ev.off + 1] = 68 THEN <<116, 114, 117, 101>> ELSE <<102, 97, 108, 115, 101>>
    [] ev.ns = "DOUBLE" -> FmtF(Bytes(buf, ev.off, 8))
    [] ev.ns = "INTEGER" -> DecText(SignExtend8(Bytes(buf, ev.off, ev.len)))

\* pstate transition shared by both callbacks: [ps, comma1 (before the token), comma2 (before a name)]
PsStep(ps, ev) ==
  LET c1 == ev.ns # "AE" /\ ps = 5
      p1 == IF ps = 4 THEN 5 ELSE ps IN
  CASE ev.ns = "OB" -> [ps |-> 1, c1 |-> c1, c2 |-> FALSE]
    [] ev.ns = "OE" -> [ps |-> IF ev.ad > 0 THEN 5 ELSE 2, c1 |-> c1, c2 |-> FALSE]        \* fix D4
    [] ev.ns = "AB" -> [ps |-> 4, c1 |-> c1, c2 |-> FALSE]
    [] ev.ns = "AE" -> [ps |-> IF ev.ad = 0 THEN 2 ELSE p1, c1 |-> c1, c2 |-> FALSE]
    [] ev.ns = "NAME" -> [ps |-> 2, c1 |-> c1, c2 |-> p1 = 2]
    [] OTHER -> [ps |-> p1, c1 |-> c1, c2 |-> FALSE]

\* one invocation of _binson_to_string_cb
Cb(ctx, ev, buf) ==
  LET st == PsStep(ctx.ps, ev)
      av0 == IF ctx.used < ctx.cap THEN ctx.cap - ctx.used ELSE 0
      \* leading comma (pstate 5)
      A1 == IF st.c1 THEN [c |-> [Snp(ctx, ctx.used, av0, <<44>>) EXCEPT !.full = @ \/ ~CheckBoundary(ctx.used, 1, ctx.cap), !.used = ctx.used + 1],
                           av |-> IF av0 > 0 THEN av0 - 1 ELSE 0]
            ELSE [c |-> ctx, av |-> av0]
      \* comma before a field name (pstate 2)
      A2 == IF st.c2 THEN [c |-> [Snp(A1.c, A1.c.used, A1.av, <<44>>) EXCEPT !.full = @ \/ ~CheckBoundary(A1.c.used, 1, A1.c.cap), !.used = A1.c.used + 1],
                           av |-> IF A1.av > 0 THEN A1.av - 1 ELSE 0]
            ELSE A1
      c0 == A2.c
      Fin(c, ret, av) == [c EXCEPT !.full = @ \/ (ret >= av) \/ ~CheckBoundary(c.used, ret, c.cap), !.used = c.used + ret, !.ps = st.ps]
  IN
  IF ev.ns # "BYTES" THEN
     LET txt == TokText(ev, buf) IN Fin(Snp(c0, c0.used, A2.av, txt), Len(txt), A2.av)
  ELSE
     LET pre == <<34, 48, 120>>
         c1 == Snp(c0, c0.used, A2.av, pre)
         over1 == ~CheckBoundary(c0.used, 3, c0.cap)
         av1 == IF over1 THEN 0 ELSE A2.av
         c2 == [c1 EXCEPT !.full = @ \/ over1, !.used = c0.used + 3]
         av2 == IF av1 >= 3 THEN av1 - 3 ELSE av1
         over2 == ~CheckBoundary(c2.used, ev.len * 2 + 2, c2.cap)
         av3 == IF over2 THEN 0 ELSE av2
         c3 == [c2 EXCEPT !.full = @ \/ over2]
         \* the hex loop: every snprintf is bounded by the SAME av3 (not decremented)
         HexLoop[i \in 0..ev.len] ==
           IF i = 0 THEN c3
           ELSE LET b == buf[ev.off + i] IN Snp(HexLoop[i - 1], c3.used + 2 * (i - 1), av3, <<HexChr(b \div 16), HexChr(b % 16)>>)
         c4 == Snp(HexLoop[ev.len], c3.used + 2 * ev.len, av3, <<34>>)
     IN Fin(c4, 2 * ev.len + 1, av3)

RECURSIVE RunCb(_,_,_,_)
RunCb(ctx, evs, i, buf) == IF i > Len(evs) THEN ctx ELSE RunCb(Cb(ctx, evs[i], buf), evs, i + 1, buf)

\* binson_parser_to_string(parser, pbuf, &size): cap = -1 stands for pbuf == NULL.
\* vr = result of ParserImpl!Verify with the callback installed (ret, evs)
ToStr(vr, buf, cap) ==
  LET size0 == IF cap < 0 THEN 0 ELSE cap
      ctx == RunCb([cap |-> size0, used |-> 0, full |-> FALSE, ps |-> 0, mem |-> <<>>, maxStore |-> 0], vr.evs, 1, buf) IN
  IF vr.ret /\ ~ctx.full THEN [ret |-> TRUE, size |-> ctx.used, mem |-> ctx.mem, maxStore |-> ctx.maxStore]
  ELSE [ret |-> FALSE, size |-> ctx.used + 1, mem |-> ctx.mem, maxStore |-> ctx.maxStore]

\* binson_parser_print: the same pstate machine, unbounded output
RECURSIVE PrintRun(_,_,_,_)
PrintRun(ps, evs, i, buf) ==
  IF i > Len(evs) THEN <<>>
  ELSE LET ev == evs[i]
           st == PsStep(ps, ev)
           body == IF ev.ns = "BYTES"
                   THEN <<34, 48, 120>> \o [k \in 1..(2 * ev.len) |-> LET b == buf[ev.off + ((k + 1) \div 2)] IN
                                                                 IF k % 2 = 1 THEN HexChr(b \div 16) ELSE HexChr(b % 16)] \o <<34>>
                   ELSE TokText(ev, buf) IN
       (IF st.c1 THEN <<44>> ELSE <<>>) \o (IF st.c2 THEN <<44>> ELSE <<>>) \o body \o PrintRun(st.ps, evs, i + 1, buf)
=============================================================================
