---------------------------- MODULE ApWriterCore ----------------------------
(***************************************************************************)
(* C04, unbounded: the counting/storing core of WriterImpl!Write over      *)
(* abstract piece LENGTHS (any natural, any capacity), for Apalache.       *)
(*   used   - the counter            err - an error has been latched       *)
(*   hi     - 1 + highest index stored into                                *)
(* IndInv is inductive (checked: Init => IndInv, IndInv /\ Next => IndInv')*)
(* hence for EVERY sequence of pieces of EVERY length:                     *)
(*   nothing is stored at or beyond the capacity, the counter is the sum   *)
(*   of all lengths, and the error is set iff that sum exceeds the capacity*)
(***************************************************************************)
EXTENDS Integers
CONSTANT
  \* @type: Int;
  Cap
VARIABLES
  \* @type: Int;
  used,
  \* @type: Int;
  total,
  \* @type: Bool;
  err,
  \* @type: Int;
  hi
Init == used = 0 /\ total = 0 /\ err = FALSE /\ hi = 0
\* _write(data) with data->bsize = len
Write(len) ==
  LET c == used + len
      e2 == err \/ c > Cap IN
  /\ err' = e2
  /\ hi' = IF ~e2 /\ len > 0 THEN c ELSE hi        \* memmove only while no error
  /\ used' = c /\ total' = total + len
Next == \E len \in Nat : Write(len)
CInit == Cap \in Nat
IndInv == /\ used = total /\ used >= 0 /\ hi >= 0 /\ hi <= Cap /\ Cap >= 0
          /\ (err <=> total > Cap) /\ (~err => hi <= used)
IndInit == used \in Int /\ total \in Int /\ err \in BOOLEAN /\ hi \in Int /\ IndInv
=============================================================================
