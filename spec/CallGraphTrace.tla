--------------------------- MODULE CallGraphTrace ---------------------------
(***************************************************************************)
(* C17, code -> spec.  CallGraph.tla decides the property on a model that  *)
(* is EXTRACTED from compiler output; this module binds that model to      *)
(* executions: the recorders are run in a build whose library objects are  *)
(* instrumented (-finstrument-functions), every distinct call stack that   *)
(* occurs is logged with the stack bytes measured for it, and each one     *)
(* must be a behaviour of CallGraph's transition system over the SAME      *)
(* extracted data: entered through a public function, every step an edge   *)
(* of the graph (an indirect call targets an address-taken function), no   *)
(* function twice, measured bytes within the static frame sizes, and no    *)
(* allocator call while a library call is active.                          *)
(***************************************************************************)
EXTENDS Naturals, Sequences, FiniteSets, TLC, Json, IOUtils, CallGraphData

Tr == ndJsonDeserialize(IOEnv.TRACE)
VARIABLES l, bad, seen
vars == <<l, bad, seen>>
Targets(g) == IF g = "__indirect_call" THEN AddressTaken ELSE {g}
EdgeOK(a, b) == \E e \in Edges : e[1] = a /\ b \in Targets(e[2])
RECURSIVE Sum(_)
Sum(s) == IF s = <<>> THEN 0 ELSE Stack[Head(s)] + Sum(Tail(s))
\* per frame: return address + alignment padding of the call; once: the frame of the measuring hook
Slack(n) == 32 * n + 256

Judge(ev) ==
  IF ev.kind = "allocs" THEN
     (IF ev.n > 0 THEN "an allocator function was called " \o ToString(ev.n) \o " times while a library call was active"
      ELSE IF ev.overflow # 0 THEN "the observed call depth exceeded the shadow stack (unbounded nesting?)" ELSE "")
  ELSE LET s == ev.stk IN
     IF \E i \in 1..Len(s) : s[i] \notin Funcs THEN "a function that is not in the extracted model was entered: " \o s[CHOOSE i \in 1..Len(s) : s[i] \notin Funcs]
     ELSE IF s[1] \notin Public THEN "the library was entered through " \o s[1] \o ", which the model does not list as public"
     ELSE IF \E i \in 1..(Len(s) - 1) : ~EdgeOK(s[i], s[i + 1])
          THEN LET i == CHOOSE i \in 1..(Len(s) - 1) : ~EdgeOK(s[i], s[i + 1]) IN "observed call " \o s[i] \o " -> " \o s[i + 1] \o " is not an edge of the extracted call graph"
     ELSE IF \E i, j \in 1..Len(s) : i # j /\ s[i] = s[j] THEN "recursion observed: " \o s[CHOOSE i \in 1..Len(s) : \E j \in 1..Len(s) : i # j /\ s[i] = s[j]] \o " is on the stack twice"
     ELSE IF \E i \in 1..Len(s) : Dyn[s[i]] # 0 THEN "a function with a variable-size frame was executed"
     ELSE IF ev.bytes > Sum(s) + Slack(Len(s)) THEN "measured " \o ToString(ev.bytes) \o " stack bytes, the frames of this call stack add up to " \o ToString(Sum(s))
     ELSE ""
Pairs(s) == {<<s[i], s[i + 1]>> : i \in 1..(Len(s) - 1)}
Init == l = 1 /\ bad = "" /\ seen = {}
Next == /\ l <= Len(Tr) /\ l' = l + 1
        /\ LET m == Judge(Tr[l]) IN
           /\ bad' = m
           /\ seen' = IF Tr[l].kind = "stack" THEN seen \cup Pairs(Tr[l].stk) ELSE seen
           /\ (m # "" => PrintT("TRACE-VIOLATION C17: line " \o ToString(l) \o ": " \o m))
           /\ (l' > Len(Tr) => PrintT(<<"TRACE-SUMMARY", Len(Tr), Cardinality(seen'),
                                        Cardinality({e \in Edges : e[1] \in Funcs /\ (e[2] \in Funcs \/ e[2] = "__indirect_call")})>>))
Spec == Init /\ [][Next]_vars
Accepted == TLCGet("stats").diameter - 1 = Len(Tr)
=============================================================================
