----------------------------- MODULE TraceWriter -----------------------------
(***************************************************************************)
(* Code -> spec for the writer: every line of the trace is one complete    *)
(* execution recorded from the REAL writer (harness/record_writer.c) with  *)
(* payloads up to 70000 bytes and capacities at and around every piece     *)
(* boundary.  Layer A (WriterA!Expect, the canonical encoder) dictates the *)
(* counter, every return value, the error class and the stored bytes.      *)
(***************************************************************************)
EXTENDS Integers, Sequences, FiniteSets, TLC, Json, IOUtils, SequencesExt

A == INSTANCE WriterA
Tr == ndJsonDeserialize(IOEnv.TRACE)

VARIABLES l, bad
vars == <<l, bad>>
Init == l = 1 /\ bad = ""

Rep(b, n) == [i \in 1..n |-> b]
\* payloads are run-length encoded (rep = <<byte, len>>) or, for short literal ones, spelled out (lit)
ToCall(c) == [op |-> c.op, v |-> IF c.op \in {"int", "dbl"} THEN c.v ELSE IF c.rep[2] = 0 THEN c.lit ELSE Rep(c.rep[1], c.rep[2])]
Calls(ev) == [i \in 1..Len(ev.calls) |-> ToCall(ev.calls[i])]
Min2(a, b) == IF a < b THEN a ELSE b
\* the recorder's checksum of the stored bytes
CheckSum(bs) == FoldLeft(LAMBDA acc, x : <<(acc[1] + x * (1 + (acc[2] % 251))) % 1000003, acc[2] + 1>>, <<0, 0>>, bs)[1]

Judge(ev) ==
  LET cs == Calls(ev)
      e == A!Expect(cs, ev.cap)
      enc == A!EncCalls(cs, 1)
      ns == ev.nstored
      st == SubSeq(enc, 1, ns)
      wf == A!Parse(enc, "O", 10).ok
  IN
  IF ev.cnt # e.cnt THEN "C04: counter is not the exact encoded size"
  ELSE IF [i \in 1..Len(ev.rets) |-> ev.rets[i] = 1] # e.rets THEN "C04: return values differ from 'fits so far'"
  ELSE IF (ev.err = 1) # e.range \/ (ev.err # 0 /\ ev.err # 1) THEN "C04: error is RANGE iff the size exceeds the capacity"
  ELSE IF ev.contig # 1 \/ ~(ns \in {e.G, e.L}) THEN "C04: stored bytes are not an allowed prefix"
  ELSE IF ev.head # SubSeq(st, 1, Min2(64, ns)) \/ ev.tail # SubSeq(st, (IF ns > 16 THEN ns - 15 ELSE 1), ns) \/ ev.sum # CheckSum(st)
       THEN (IF e.range THEN "C04: stored prefix differs from the encoding" ELSE "C05: output is not the canonical encoding")
  ELSE IF ~e.range /\ (ev.wv = 1) # wf THEN "C05: binson_writer_verify disagrees with Layer A on the output"
  ELSE ""

\* every line is an independent execution: validation continues after a disagreement
Next == /\ l <= Len(Tr) /\ l' = l + 1
        /\ LET m == Judge(Tr[l]) IN
           /\ bad' = m
           /\ (m # "" => PrintT("TRACE-VIOLATION " \o SubSeq(m, 1, 3) \o ": line " \o ToString(l) \o ": " \o SubSeq(m, 6, Len(m))))
        /\ (l' > Len(Tr) => PrintT(<<"TRACE-SUMMARY", Len(Tr), Len(Tr), 0>>))
Spec == Init /\ [][Next]_vars
Accepted == TLCGet("stats").diameter - 1 = Len(Tr)
=============================================================================
