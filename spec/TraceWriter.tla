----------------------------- MODULE TraceWriter -----------------------------
(***************************************************************************)
(* Code -> spec for the writer: every line of the trace is one complete    *)
(* execution recorded from the REAL writer (harness/record_writer.c) with  *)
(* payloads up to 70000 bytes and capacities at and around every piece     *)
(* boundary.  Layer A (WriterA!Expect, the canonical encoder) dictates the *)
(* counter, every return value, the error class and the stored bytes.      *)
(***************************************************************************)
EXTENDS Integers, Sequences, FiniteSets, TLC, Json, IOUtils, SequencesExt

A == INSTANCE WriterA
Tr == ndJsonDeserialize(IOEnv.TRACE)

VARIABLES l, bad
vars == <<l, bad>>
Init == l = 1 /\ bad = ""

Rep(b, n) == [i \in 1..n |-> b]
\* payloads are run-length encoded (rep = <<byte, len>>) or, for short literal ones, spelled out (lit)
ToCall(c) == [op |-> c.op, v |-> IF c.op \in {"int", "dbl"} THEN c.v ELSE IF c.rep[2] = 0 THEN c.lit ELSE Rep(c.rep[1], c.rep[2])]
Calls(ev) == [i \in 1..Len(ev.calls) |-> ToCall(ev.calls[i])]
Min2(a, b) == IF a < b THEN a ELSE b
\* the recorder's checksum of the stored bytes
CheckSum(bs) == FoldLeft(LAMBDA acc, x : <<(acc[1] + x * (1 + (acc[2] % 251))) % 1000003, acc[2] + 1>>, <<0, 0>>, bs)[1]

\* C04 is judged on the writer's OWN unlimited-capacity counters (scnt, recorded from a run with room for
\* everything): the counter must not depend on the capacity, a call returns TRUE iff everything so far fits, the
\* error is RANGE iff the whole does not fit, the stored bytes are the prefix before the first piece that did not
\* fit (optionally plus that call's descriptor).  C05 compares sizes and bytes with Layer A's canonical encoding.
Judge(ev) ==
  LET cs == Calls(ev)
      n == Len(cs)
      e == A!Expect(cs, ev.cap)
      enc == A!EncCalls(cs, 1)
      sc == ev.scnt
      stot == IF n = 0 THEN 0 ELSE sc[n]
      over == {i \in 1..n : sc[i] > ev.cap}
      k == IF over = {} THEN n + 1 ELSE CHOOSE i \in over : \A j \in over : i <= j
      G == IF k = 1 THEN 0 ELSE IF k = n + 1 THEN stot ELSE sc[k - 1]
      plen == IF k <= n /\ cs[k].op \in {"str", "name", "bytes"} THEN Len(cs[k].v) ELSE 0
      L == IF k <= n /\ plen > 0 /\ sc[k] - plen <= ev.cap THEN sc[k] - plen ELSE G
      ns == ev.nstored
      st == SubSeq(enc, 1, ns)
      wf == A!Parse(enc, "O", 10).ok
      canonical == sc = e.sizes
  IN
  IF ev.cnt # stot THEN "C04: the counter depends on the capacity"
  ELSE IF [i \in 1..n |-> ev.rets[i] = 1] # [i \in 1..n |-> sc[i] <= ev.cap] THEN "C04: return values differ from 'fits so far'"
  ELSE IF (ev.err = 1) # (stot > ev.cap) \/ (ev.err # 0 /\ ev.err # 1) THEN "C04: error is RANGE iff the size exceeds the capacity"
  ELSE IF ev.contig # 1 \/ ~(ns \in {G, L}) THEN "C04: stored bytes are not an allowed prefix"
  ELSE IF ~canonical THEN "C05: encoded sizes differ from the canonical encoding"
  ELSE IF ev.head # SubSeq(st, 1, Min2(64, ns)) \/ ev.tail # SubSeq(st, (IF ns > 16 THEN ns - 15 ELSE 1), ns) \/ ev.sum # CheckSum(st)
       THEN "C05: stored bytes differ from the canonical encoding"
  ELSE IF stot <= ev.cap /\ (ev.wv = 1) # wf THEN "C05: binson_writer_verify disagrees with Layer A on the output"
  \* the recorder walked the writer's (unlimited-capacity) output in lock-step with the call list: next / go_into / leave
  \* and the typed getters must give back every name and value written (pb = -1: not a well-formed list)
  ELSE IF wf /\ ev.pb = 0 THEN "C05: decoding the output by traversal does not give back the values written"
  ELSE ""

\* every line is an independent execution: validation continues after a disagreement
Next == /\ l <= Len(Tr) /\ l' = l + 1
        /\ LET m == Judge(Tr[l]) IN
           /\ bad' = m
           /\ (m # "" => PrintT("TRACE-VIOLATION " \o SubSeq(m, 1, 3) \o ": line " \o ToString(l) \o ": " \o SubSeq(m, 6, Len(m))))
        /\ (l' > Len(Tr) => PrintT(<<"TRACE-SUMMARY", Len(Tr), Len(Tr), 0>>))
Spec == Init /\ [][Next]_vars
Accepted == TLCGet("stats").diameter - 1 = Len(Tr)
=============================================================================
