------------------------------ MODULE MC_Writer ------------------------------
(***************************************************************************)
(* C04 / C05 / C09(writer) / C12(writer): ALL call lists of up to K calls  *)
(* over the write alphabet Alpha (well-formed or not), optionally with one *)
(* reset in the middle, x EVERY capacity 0 .. size+1 (so every capacity    *)
(* that cuts a token, a descriptor or a payload occurs).  Layer I          *)
(* (WriterImpl) is folded over the list and compared with Layer A          *)
(* (WriterA!Expect: counter, return values, error class, stored prefix);   *)
(* when the output parses as a document the writer's verify must accept it *)
(* and decoding must give back the calls' values (C05).  One behaviour per *)
(* (list, capacity) is printed for the replayer.                           *)
(***************************************************************************)
EXTENDS Integers, Sequences, FiniteSets, TLC
CONSTANTS K, Alpha, WithReset, AllCaps, EmitOn

WI == INSTANCE WriterImpl
A  == INSTANCE WriterA
PI == INSTANCE ParserImpl

VARIABLES seg1, seg2, hasMark, fin, bad
vars == <<seg1, seg2, hasMark, fin, bad>>

Init == seg1 = <<>> /\ seg2 = <<>> /\ hasMark = FALSE /\ fin = -1 /\ bad = ""

AddCall == /\ fin = -1 /\ Len(seg1) + Len(seg2) < K
           /\ \E i \in 1..Len(Alpha) :
                IF hasMark THEN seg2' = Append(seg2, Alpha[i]) /\ seg1' = seg1
                ELSE seg1' = Append(seg1, Alpha[i]) /\ seg2' = seg2
           /\ UNCHANGED <<hasMark, fin, bad>>
Mark == /\ WithReset /\ fin = -1 /\ ~hasMark /\ Len(seg1) > 0 /\ Len(seg1) < K
        /\ hasMark' = TRUE /\ UNCHANGED <<seg1, seg2, fin, bad>>

\* ---- text form -------------------------------------------------------------
CallStr(c) ==
  CASE c.op \in {"ob", "oe", "ab", "ae", "t", "f", "nameNULL", "rawNULL"} -> c.op
    [] c.op = "int" -> "i" \o A!HexStr(c.v) [] c.op = "dbl" -> "d" \o A!HexStr(c.v)
    [] c.op = "str" -> "s" \o A!HexStr(c.v) [] c.op = "bytes" -> "y" \o A!HexStr(c.v)
    [] c.op = "name" -> "n" \o A!HexStr(c.v) [] c.op = "raw" -> "r" \o A!HexStr(c.v)
RECURSIVE CallsStr(_,_)
CallsStr(cs, i) == IF i > Len(cs) THEN "" ELSE CallStr(cs[i]) \o " " \o CallsStr(cs, i + 1)
RECURSIVE Bits(_,_)
Bits(bs, i) == IF i > Len(bs) THEN "" ELSE (IF bs[i] THEN "1" ELSE "0") \o Bits(bs, i + 1)

\* ---- Layer A expectation for a segment that may contain NULL-argument calls ----
\* a NULL call stores nothing, counts nothing and fails; everything after it fails too
HasNull(cs) == \E i \in 1..Len(cs) : cs[i].op \in {"nameNULL", "rawNULL"}
FirstNull(cs) == CHOOSE i \in 1..Len(cs) : cs[i].op \in {"nameNULL", "rawNULL"} /\ \A j \in 1..(i-1) : ~(cs[j].op \in {"nameNULL", "rawNULL"})
Strip(cs) == SelectSeq(cs, LAMBDA c : ~(c.op \in {"nameNULL", "rawNULL"}))
ExpectN(cs, cap) ==
  IF ~HasNull(cs) THEN [A!Expect(cs, cap) EXCEPT !.range = IF @ THEN "R" ELSE "0"] @@ [enc |-> A!EncCalls(cs, 1)]
  ELSE LET fn == FirstNull(cs)
           pre == SubSeq(cs, 1, fn - 1)
           ep == A!Expect(pre, cap)
           all == A!Expect(Strip(cs), cap)
           \* rets: as the prefix before the NULL call, FALSE from it on
           rets == [i \in 1..Len(cs) |-> IF i < fn THEN ep.rets[i] ELSE FALSE]
       IN [cnt |-> all.cnt, range |-> "e", rets |-> rets, G |-> ep.G, L |-> ep.L, sizes |-> all.sizes,
           enc |-> A!EncCalls(pre, 1)]

\* one finished behaviour: capacity cap, both segments
Eval(cap) ==
  LET w0 == WI!WInit(cap, TRUE)
      r1 == WI!Run(w0, seg1, 1)
      e1 == ExpectN(seg1, cap)
      rs == IF hasMark THEN WI!Call(r1.W, [op |-> "reset", v |-> <<>>]) ELSE [W |-> r1.W, ret |-> FALSE]
      r2 == WI!Run(rs.W, seg2, 1)
      e2 == ExpectN(seg2, cap)
      SegOK(r, e, before) ==
        /\ r.W.used = before + e.cnt
        /\ r.rets = e.rets
        /\ CASE e.range = "R" -> r.W.err = "RANGE" [] e.range = "0" -> r.W.err = "NONE" [] OTHER -> r.W.err # "NONE"
      Stored(r, e) == \* what the writer stored in this segment is an allowed prefix of the encoding
        \E n \in {e.G, e.L} : n <= Len(r.W.mem) /\ SubSeq(r.W.mem, 1, n) = SubSeq(e.enc, 1, n)
      wf1 == ~HasNull(seg1) /\ e1.cnt <= cap /\ A!Parse(e1.enc, "O", 10).ok
      v1 == LET i0 == PI!InitP("O", r1.W.mem, 10) IN i0.ok /\ PI!Verify(i0.P, r1.W.mem).ret
      ok == /\ SegOK(r1, e1, 0)
            /\ Len(r1.W.mem) \in {e1.G, e1.L} /\ r1.W.mem = SubSeq(e1.enc, 1, Len(r1.W.mem))
            /\ (~HasNull(seg1) /\ e1.cnt <= cap) => (r1.W.mem = e1.enc /\ (v1 <=> A!Parse(e1.enc, "O", 10).ok))
            /\ hasMark /\ rs.ret => (rs.W.used = 0 /\ rs.W.err = "NONE" /\ SegOK(r2, e2, 0) /\ Stored(r2, e2))
            /\ hasMark /\ ~rs.ret => (rs.W.err # "NONE" /\ \A i \in 1..Len(r2.rets) : ~r2.rets[i])
      ExpStr(e, r) == "EXP cnt=" \o ToString(e.cnt) \o " rng=" \o e.range \o " rets=" \o Bits(e.rets, 1) \o " G=" \o ToString(e.G)
                      \o " L=" \o ToString(e.L) \o " st=" \o ToString(Len(r.W.mem)) \o " enc=" \o A!HexStr(e.enc)
      line == "WBEH " \o ToString(cap) \o " | SEG " \o CallsStr(seg1, 1) \o ExpStr(e1, r1) \o " wf=" \o (IF wf1 THEN "1" ELSE "0")
              \o (IF hasMark THEN " | MARK reset=" \o (IF rs.ret THEN "t" ELSE "f") \o " | SEG " \o CallsStr(seg2, 1) \o ExpStr(e2, r2) \o " wf=x"
                  ELSE "")
  IN [ok |-> ok, line |-> line]

Total == A!Expect(Strip(seg1), 0).cnt + A!Expect(Strip(seg2), 0).cnt
Finish == /\ fin = -1 /\ Len(seg1) > 0 /\ (hasMark => Len(seg2) > 0)
          /\ \E cap \in (IF AllCaps THEN 0..(Total + 1) ELSE {Total, Total + 1}) :
               LET ev == Eval(cap) IN
               /\ fin' = cap
               /\ bad' = IF ev.ok THEN "" ELSE "Layer I deviates from Layer A: " \o ev.line
               /\ (EmitOn => PrintT(ev.line))
          /\ UNCHANGED <<seg1, seg2, hasMark>>
Next == AddCall \/ Mark \/ Finish
Spec == Init /\ [][Next]_vars
Refines == bad = ""

\* ---------- alphabets ----------------------------------------------------------
Rep(b, n) == [i \in 1..n |-> b]
Ob == [op |-> "ob", v |-> <<>>]  Oe == [op |-> "oe", v |-> <<>>]
Ab == [op |-> "ab", v |-> <<>>]  Ae == [op |-> "ae", v |-> <<>>]
I8(bs) == [op |-> "int", v |-> bs]
AlphaQ == << Ob, Oe, Ab, Ae, [op |-> "t", v |-> <<>>],
             I8(<<0,0,0,0,0,0,0,0>>), I8(<<127,0,0,0,0,0,0,0>>), I8(<<128,0,0,0,0,0,0,0>>), I8(<<127,255,255,255,255,255,255,255>>),
             I8(<<0,128,0,0,0,0,0,0>>), I8(<<0,0,0,128,0,0,0,0>>), I8(<<255,255,255,127,255,255,255,255>>),
             [op |-> "dbl", v |-> <<0,0,0,0,0,0,240,63>>],
             [op |-> "str", v |-> <<>>], [op |-> "str", v |-> <<120>>], [op |-> "name", v |-> <<97>>], [op |-> "name", v |-> <<98>>],
             [op |-> "bytes", v |-> <<170, 187>>], [op |-> "str", v |-> Rep(113, 127)], [op |-> "bytes", v |-> Rep(7, 128)],
             [op |-> "raw", v |-> <<64, 65>>], [op |-> "nameNULL", v |-> <<>>] >>
AlphaInts == << Ob, Oe, [op |-> "name", v |-> <<97>>],
   I8(<<128,255,255,255,255,255,255,255>>), I8(<<127,255,255,255,255,255,255,255>>), I8(<<255,127,0,0,0,0,0,0>>), I8(<<0,128,255,255,255,255,255,255>>),
   I8(<<255,127,255,255,255,255,255,255>>), I8(<<255,255,255,127,0,0,0,0>>), I8(<<0,0,0,128,255,255,255,255>>),
   I8(<<255,255,255,255,0,0,0,0>>), I8(<<0,0,0,0,1,0,0,0>>), I8(<<255,255,255,255,255,255,255,127>>), I8(<<0,0,0,0,0,0,0,128>>),
   [op |-> "dbl", v |-> <<1,0,0,0,0,0,248,127>>], [op |-> "dbl", v |-> <<0,0,0,0,0,0,0,128>>], [op |-> "f", v |-> <<>>],
   [op |-> "bytes", v |-> <<>>], [op |-> "bytes", v |-> Rep(0, 127)], [op |-> "str", v |-> Rep(255, 128)], [op |-> "rawNULL", v |-> <<>>] >>
=============================================================================
