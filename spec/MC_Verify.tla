------------------------------ MODULE MC_Verify ------------------------------
(***************************************************************************)
(* C02: init + verify accept exactly the well-formed documents.            *)
(* ALL token strings of up to K tokens over an alphabet Sigma containing   *)
(* every token kind, every width boundary (minimal and non-minimal),       *)
(* truncated tokens, names that exercise order / duplicates / prefixes /   *)
(* signedness, and junk bytes; each string is tried bare, behind 0x40 and  *)
(* behind 0x42, open and closed, as object- and as array-rooted document,  *)
(* for every max_depth in MaxDs.  Plus the families DeepDocs that reach    *)
(* the nesting limits (255 arrays, max_depth objects).                     *)
(* Layer I (ParserImpl!Verify) is compared with Layer A (BinsonFormat!     *)
(* Parse); every verdict is printed so that the real binson_parser_verify  *)
(* is run on the same bytes (accept set AND its complement).               *)
(***************************************************************************)
EXTENDS Integers, Sequences, FiniteSets, TLC
CONSTANTS K, MaxDs, Sigma, Deep, EmitOn

PI == INSTANCE ParserImpl
F  == INSTANCE BinsonFormat
E  == INSTANCE Emit

Rep(b, n) == [i \in 1..n |-> b]
R0 == [done |-> FALSE, impl |-> FALSE, ref |-> FALSE, err |-> "-", kind |-> "-"]
VARIABLES buf, n, res
vars == <<buf, n, res>>

\* ---- families that reach the nesting limits ------------------------------
Nest(open, close, d, mid) == Rep(open, d) \o mid \o Rep(close, d)
RECURSIVE ObjNest(_)
\* {"a":{"a":...{}...}} with d objects
ObjNest(d) == IF d = 1 THEN <<64, 65>> ELSE <<64, 20, 1, 97>> \o ObjNest(d - 1) \o <<65>>
RECURSIVE ObjArrNest(_)
\* [{"a":[{"a":[ ... ]}]}] : arrays and objects alternating, d pairs
ObjArrNest(d) == IF d = 0 THEN <<66, 67>> ELSE <<66, 64, 20, 1, 97>> \o ObjArrNest(d - 1) \o <<65, 67>>
DeepDocs ==
  {Nest(66, 67, d, <<>>) : d \in {254, 255, 256, 257}} \cup                       \* [[[...]]] array root
  {<<64, 20, 1, 97>> \o Nest(66, 67, d, <<>>) \o <<65>> : d \in {254, 255, 256}} \cup   \* {"a":[[...]]}
  {Nest(66, 67, d, <<16, 5>>) : d \in {255, 256}} \cup
  {ObjNest(d) : d \in {1, 2, 3, 4, 9, 10, 11, 12, 254, 255, 256, 257}} \cup
  {<<66>> \o ObjNest(d) \o <<67>> : d \in {1, 2, 3, 9, 10, 11}} \cup
  {ObjArrNest(d) : d \in {1, 2, 3, 9, 10, 11}} \cup
  \* the array counter is per object level: 255 arrays, an object, 255 more arrays is fine
  {Nest(66, 67, 255, <<64, 20, 1, 97>> \o Nest(66, 67, d, <<>>) \o <<65>>) : d \in {255, 256}}

Init == /\ res = R0
        /\ \/ (buf \in {<<64>>, <<66>>, <<>>} /\ n = 0)
           \/ (Deep /\ buf \in DeepDocs /\ n = K)

Add == ~res.done /\ n < K /\ \E i \in 1..Len(Sigma) : buf' = buf \o Sigma[i] /\ n' = n + 1 /\ res' = res

Check(root, closeIt, md) ==
  /\ ~res.done /\ n' = n
  /\ buf' = IF closeIt THEN buf \o <<IF root = "O" THEN 65 ELSE 67>> ELSE buf
  /\ LET i0 == PI!InitP(root, buf', md)
         v == IF i0.ok THEN PI!Verify(i0.P, buf') ELSE PI!Verify(i0.P, buf')
         a == F!Parse(buf', root, md)
         dfo == F!DepthFirstObstacle(buf', root, md)
         arg == root \o F!HexStr(buf')
         eStr == IF a.ok THEN "0" ELSE IF dfo = "DEPTH_OBJECT" THEN "8" ELSE IF dfo = "DEPTH_ARRAY" THEN "9"
                 ELSE "~" \o ToString(E!ErrCode(v.P.err))
     IN /\ res' = [done |-> TRUE, impl |-> i0.ok /\ v.ret, ref |-> a.ok, err |-> v.P.err,
                   kind |-> IF a.ok THEN "-" ELSE a.kind]
        /\ (EmitOn => PrintT("BEH Z " \o ToString(md) \o " | " \o E!Pre("I", arg, IF a.ok THEN "1" ELSE E!BitI(i0.ok)) \o " | "
                             \o E!Full("v", "", E!Bit(a.ok), eStr, "x", "x", "x", "x", IF v.ret THEN "0" ELSE "x")))
Next == Add \/ \E r \in {"O", "A"}, c \in BOOLEAN, md \in MaxDs : Check(r, c, md)
Spec == Init /\ [][Next]_vars

Agree == res.impl = res.ref
DepthCode == (res.done /\ res.kind \in {"DEPTH_OBJECT", "DEPTH_ARRAY"}) => res.err = "MAX_" \o res.kind

\* ---------- alphabets ---------------------------------------------------------
SigmaFull == <<
  <<64>>, <<65>>, <<66>>, <<67>>, <<68>>, <<69>>,
  <<70, 0, 0, 0, 0, 0, 0, 240, 63>>, <<70, 1, 2, 3>>,
  <<16, 0>>, <<16, 127>>, <<16, 128>>, <<17, 128, 0>>, <<17, 127, 0>>, <<17, 127, 255>>, <<17, 128, 255>>,
  <<18, 0, 128, 0, 0>>, <<18, 255, 127, 0, 0>>, <<18, 255, 127, 255, 255>>,
  <<19, 0, 0, 0, 128, 0, 0, 0, 0>>, <<19, 255, 255, 255, 127, 0, 0, 0, 0>>, <<19, 255, 255, 255, 127, 255, 255, 255, 255>>, <<17, 128>>,
  <<20, 0>>, <<20, 1, 97>>, <<20, 1, 98>>, <<20, 2, 97, 97>>, <<20, 1, 0>>, <<20, 1, 128>>,
  <<21, 1, 0, 97>>, <<20, 255>>, <<20, 5, 97>>, <<21, 128, 0>> \o Rep(120, 128), <<22, 1, 0, 0, 0, 97>>,
  <<24, 0>>, <<24, 1, 170>>, <<25, 1, 0, 170>>, <<24, 255>>, <<26, 0, 0, 0, 128>>,
  \* a NEGATIVE one-byte length (0x80 = -128, 0xC8 = -56) followed by as many bytes as its unsigned reading asks for
  <<20, 128>> \o Rep(97, 128), <<24, 200>> \o Rep(7, 200),
  <<0>>, <<23>>, <<27>>, <<71>>, <<255>> >>
\* further boundary encodings for the thorough tier
SigmaWide == SigmaFull \o <<
  <<18, 255, 255, 255, 127>>, <<18, 0, 0, 0, 128>>, <<18, 0, 128, 255, 255>>, <<18, 255, 127, 255, 255>>,
  <<19, 255, 255, 255, 255, 0, 0, 0, 0>>, <<19, 0, 0, 0, 0, 255, 255, 255, 255>>, <<19, 0, 0, 0, 128, 255, 255, 255, 255>>,
  <<19, 0, 0, 0, 0, 0, 0, 0, 128>>, <<19, 1, 2, 3>>,
  <<22, 0, 128, 0, 0>> , <<22, 255, 255, 255, 127>>, <<22, 255, 255, 255, 255>>, <<21, 255, 127>>, <<21, 0, 128>>,
  <<25, 128, 0>> \o Rep(7, 128), <<26, 1, 0, 0, 0, 7>>, <<25, 0, 128>>, <<23, 1, 97>>, <<27, 0>>, <<20>>, <<24>> >>
SigmaMid == << <<64>>, <<65>>, <<66>>, <<67>>, <<68>>, <<16, 5>>, <<17, 5, 0>>, <<17, 128, 0>>, <<20, 1, 97>>, <<20, 1, 98>>, <<20, 0>>,
               <<21, 1, 0, 97>>, <<0>>, <<17, 128>>, <<24, 1, 170>>, <<70, 0, 0, 0, 0, 0, 0, 240, 63>> >>
\* names only: duplicates / descending / prefix order need name,value,name,value = 4 tokens
SigmaNames == << <<65>>, <<64>>, <<66>>, <<67>>, <<16, 5>>, <<20, 0>>, <<20, 1, 97>>, <<20, 1, 98>>, <<20, 2, 97, 97>>, <<20, 1, 0>>,
                 <<20, 1, 128>>, <<20, 2, 97, 0>>, <<20, 3, 97, 0, 120>>, <<20, 3, 97, 0, 121>>, <<21, 128, 0>> \o Rep(97, 128) >>
\* tiny alphabet for order violations across a nested container: name,{,},name,value = 5 tokens
SigmaTiny == << <<20, 1, 97>>, <<20, 1, 98>>, <<64>>, <<65>>, <<66>>, <<67>>, <<68>> >>
MaxDs123 == {1, 2, 3}
MaxDs2 == {2}
MaxDsDeep == {1, 2, 3, 10, 255}
=============================================================================
