-------------------------------- MODULE Emit --------------------------------
(***************************************************************************)
(* Text form of behaviours handed to the C replayers (spec -> code).       *)
(* One behaviour per line:                                                 *)
(*   BEH <fill> <maxd> | <prefix steps> | <last step with expectations>    *)
(* prefix step  :  op[/arg]=r        r: 1/0 required by Layer A,           *)
(*                                      t/f predicted by Layer I only,     *)
(*                                      x unspecified                      *)
(* last step    :  op[/arg]=r:E:D:T:N:V:U                                  *)
(*   E  error: 0 must be NONE, e must be set, <n> exactly code n, x any    *)
(*   D  get_depth relative to its value after init, or x                   *)
(*   T  get_type code, or x                                                *)
(*   N  name span off+len, or x                                            *)
(*   V  value: I<16hex> D<16hex> B0 B1 S<off>+<len> Y<off>+<len>           *)
(*             R<off>+<len> (raw span) C (container) x                     *)
(*   U  Layer-I prediction of buffer_used (internal; mismatch = drift)     *)
(***************************************************************************)
EXTENDS Bytes

TypeCode(t) == CASE t = "none" -> 0 [] t = "object" -> 1 [] t = "array" -> 3 [] t = "boolean" -> 5
                 [] t = "integer" -> 6 [] t = "double" -> 7 [] t = "string" -> 8 [] t = "bytes" -> 9
ErrCode(e) == CASE e = "NONE" -> 0 [] e = "RANGE" -> 1 [] e = "FORMAT" -> 2 [] e = "NULL" -> 5
                [] e = "STATE" -> 6 [] e = "WRONG_TYPE" -> 7 [] e = "MAX_DEPTH_OBJECT" -> 8
                [] e = "MAX_DEPTH_ARRAY" -> 9
Span(off, len) == ToString(off) \o "+" \o ToString(len)
ValStr(buf, nd) ==
  CASE nd.t = "integer" -> "I" \o HexStr(SignExt8(Sub(buf, nd.pOff, nd.pLen)))
    [] nd.t = "double"  -> "D" \o HexStr(Sub(buf, nd.pOff, 8))
    [] nd.t = "boolean" -> IF B(buf, nd.off) = 68 THEN "B1" ELSE "B0"
    [] nd.t = "string"  -> "S" \o Span(nd.pOff, nd.pLen)
    [] nd.t = "bytes"   -> "Y" \o Span(nd.pOff, nd.pLen)
    [] OTHER -> "C"
Bit(b) == IF b THEN "1" ELSE "0"
BitI(b) == IF b THEN "t" ELSE "f"
Arg(a) == IF a = "" THEN "" ELSE "/" \o a
Pre(op, arg, r) == op \o Arg(arg) \o "=" \o r
Full(op, arg, r, e, d, t, n, v, u) ==
  op \o Arg(arg) \o "=" \o r \o ":" \o e \o ":" \o d \o ":" \o t \o ":" \o n \o ":" \o v \o ":" \o u
=============================================================================
