SPECIFICATION Spec
CONSTANTS
 K = 3
 MaxD = 2
 Sigma <- SigmaS
 Names <- NamesS
 Roots <- RootsOA
 HistK = 0
 Stems <- NoStems
 EmitOn = FALSE
VIEW View
INVARIANTS Strict NoOob
CHECK_DEADLOCK FALSE
